#!/usr/bin/env python3
"""Run the property's check against each seeded change under /verif/seeded/<id>/patch.diff.

usage: run_seeded.py [-j N] [--tier quick|thorough] [--inplace] [<id> ...]
       (prints one line per seeded change: caught / MISSED; exit 1 if any was missed)

Default mode never touches /repo: for every seeded change it makes a scratch git worktree of /repo's HEAD under
$TMPDIR/vseed/<id>/repo, applies the patch there, copies /verif (with its lake build output, 60 MB) to
$TMPDIR/vseed/<id>/verif and runs `OUTRANK_REPO=<worktree> <copy>/check <Cxx> quick` there, N jobs in parallel;
both scratch directories are removed as soon as the job is done.
--inplace applies the patch to /repo itself (git apply), runs /verif/check, and undoes it (git checkout -- .)."""
import argparse
import concurrent.futures as cf
import json
import os
import shutil
import subprocess
import sys
import tempfile

VERIF = os.path.dirname(os.path.dirname(os.path.abspath(__file__)))
REPO = '/repo'
SCRATCH = os.path.join(tempfile.gettempdir(), 'vseed')
REPLAY = False


def sh(cmd, **kw):
    return subprocess.run(cmd, capture_output=True, text=True, **kw)


def run_checks(check, checks, tier, env=None):
    outs, caught = [], False
    for p in checks:
        r = sh([check, p, tier], cwd=os.path.dirname(check), env=env)
        v = [l for l in r.stdout.splitlines() if l.startswith('VIOLATION')]
        tail = r.stdout.strip().splitlines()[-1][:150] if r.stdout.strip() else r.stderr.strip()[-150:]
        outs.append(f'{p}: exit={r.returncode} ' + (' | '.join(v[:2]) if v else tail))
        if r.returncode == 1 and v:
            caught = True
            try:   # keep what the replay says, for the record
                rp = v[0].split('replay=')[1].split()[0]
                what = json.load(open(os.path.join(os.path.dirname(check), rp))).get('what', '')
                outs[-1] += ' :: ' + what[:160]
                if REPLAY and 'no-failing-input-found' not in v[0]:
                    # the stored case must fail again when replayed against the changed tree
                    rr = sh([check, p, 'replay', rp], cwd=os.path.dirname(check), env=env)
                    outs[-1] = f'[replay exit={rr.returncode}{"" if rr.returncode == 1 else " !!REPLAY-DOES-NOT-REPRODUCE"}] ' + outs[-1]
            except Exception as e:   # noqa: BLE001
                outs[-1] += f' (replay check failed: {e})'
    return caught, outs


def job_isolated(i, tier):
    d = os.path.join(VERIF, 'seeded', i)
    meta = json.load(open(os.path.join(d, 'meta.json')))
    root = os.path.join(SCRATCH, i)
    shutil.rmtree(root, ignore_errors=True)
    os.makedirs(root)
    wt, vcopy = os.path.join(root, 'repo'), os.path.join(root, 'verif')
    try:
        a = sh(['git', '-C', REPO, 'worktree', 'add', '--detach', wt, 'HEAD'])
        if a.returncode != 0:
            return i, None, ['worktree failed: ' + a.stderr.strip()[:200]]
        a = sh(['git', '-C', wt, 'apply', os.path.join(d, 'patch.diff')])
        if a.returncode != 0:
            return i, None, ['patch does not apply: ' + a.stderr.strip()[:200]]
        sh(['rsync', '-a', '--exclude', '.git', '--exclude', 'replays', '--exclude', 'seeded', VERIF + '/', vcopy + '/'])
        env = dict(os.environ, OUTRANK_REPO=wt)
        env.pop('NUMBA_CACHE_DIR', None)
        caught, outs = run_checks(os.path.join(vcopy, 'check'), meta.get('checks', [meta['property']]), tier, env)
        return i, caught, outs
    finally:
        sh(['git', '-C', REPO, 'worktree', 'remove', '--force', wt])
        shutil.rmtree(root, ignore_errors=True)
        sh(['git', '-C', REPO, 'worktree', 'prune'])


def job_inplace(i, tier):
    d = os.path.join(VERIF, 'seeded', i)
    meta = json.load(open(os.path.join(d, 'meta.json')))
    st = sh(['git', '-C', REPO, 'status', '--porcelain', '--untracked-files=no']).stdout.strip()
    if st:
        return i, None, ['refusing: /repo has uncommitted changes: ' + st]
    a = sh(['git', '-C', REPO, 'apply', os.path.join(d, 'patch.diff')])
    if a.returncode != 0:
        return i, None, ['patch does not apply: ' + a.stderr.strip()[:200]]
    try:
        caught, outs = run_checks(os.path.join(VERIF, 'check'), meta.get('checks', [meta['property']]), tier)
        return i, caught, outs
    finally:
        sh(['git', '-C', REPO, 'checkout', '--', '.'])


def main():
    ap = argparse.ArgumentParser()
    ap.add_argument('-j', type=int, default=6)
    ap.add_argument('--tier', default='quick')
    ap.add_argument('--inplace', action='store_true')
    ap.add_argument('--replay', action='store_true', help='also re-run the stored replay against the changed tree')
    ap.add_argument('ids', nargs='*')
    a = ap.parse_args()
    global REPLAY
    REPLAY = a.replay
    root = os.path.join(VERIF, 'seeded')
    ids = a.ids or sorted(d for d in os.listdir(root) if os.path.isdir(os.path.join(root, d)))
    rc_all = 0
    results = {}
    if a.inplace:
        for i in ids:
            results[i] = job_inplace(i, a.tier)
            print_result(*results[i])
    else:
        with cf.ThreadPoolExecutor(max_workers=a.j) as ex:
            futs = {ex.submit(job_isolated, i, a.tier): i for i in ids}
            for f in cf.as_completed(futs):
                results[futs[f]] = f.result()
                print_result(*results[futs[f]])
    missed = sorted(i for i, (_, c, o) in results.items() if (not c and not out_of_scope(i)) or
                    (out_of_scope(i) and any('VIOLATION' in x and 'no-failing-input-found' not in x for x in o)))
    print(f'SUMMARY {len(results) - len(missed)}/{len(results)} caught' + (('; not caught: ' + ' '.join(missed)) if missed else ''))
    return 1 if missed else rc_all


def out_of_scope(i):
    try:
        return bool(json.load(open(os.path.join(VERIF, 'seeded', i, 'meta.json'))).get('out_of_scope'))
    except Exception:   # noqa: BLE001
        return False


def print_result(i, caught, outs):
    tag = 'caught' if caught else ('ERROR' if caught is None else 'MISSED')
    if out_of_scope(i):
        # a change that does NOT break the property as quantified (kept for the record): the check must stay silent or at most
        # report a broken tie; a concrete failing input would be a false alarm
        concrete = any('VIOLATION' in o and 'no-failing-input-found' not in o for o in outs)
        tag = 'OUT-OF-SCOPE-BUT-CONCRETE-ALARM' if concrete else 'out-of-scope (no concrete alarm, as it should be)'
    print(f'{i}: {tag} :: ' + ' ;; '.join(outs), flush=True)


if __name__ == '__main__':
    sys.exit(main())
