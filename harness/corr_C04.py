"""C04 – subsampled estimation is memory-safe, deterministic, sample-only.
Tie: the real njit estimator / stratified_subsampling in FRESH processes under MALLOC_PERTURB_ in {0,85,170} (the glibc fill
pattern reaches numba's np.empty) vs the Lean model (explicit uninitialised-cell memory model).
Oracle: normal termination, identical finite value across allocator histories, value = model, sample = stated sample,
score unchanged when Y is altered outside the sampled rows."""
from __future__ import annotations

import json
import math
import os
import subprocess
import sys
import tempfile
from concurrent.futures import ThreadPoolExecutor
from fractions import Fraction

import numpy as np

from mi_common import est_line, gen_pair, tol
from vp_common import VERIF, Atom, Ctx, line, run_driver

PROP = 'C04'
RULE = ('C01 families (n <= 400 in quick) x ratios r in float32{0.05,0.1,1/3,0.5,0.9,0.999,1-2^-24,2^-20} + random, weighted '
        'towards strata smaller than the quota and floor(r n) not a multiple of #values; each case run in fresh processes under '
        '3 allocator fill patterns; plus LARGE-QUOTA cases (70000..200000 rows over 2-3 target values, r close to 1: per-value quota beyond 2^15). Non-trivial = quota > 0 and written prefix shorter than the buffer (the uninitialised tail '
        'exists); distinct = distinct (partition structure, r).')
ASSUMPTIONS = ['that numba\'s compiled code performs exactly the reads the model performs is observed (MALLOC_PERTURB_ sensitivity), not proved',
               'float32 rounding: |impl - model| <= 4e-6*(1+ln n)',
               'r is the exact dyadic value of the float32 argument; floor(r*n) is exact in float64 for n < 2^29']
PERTURB = ['0', '85', '170']
RATIOS = [0.05, 0.1, 1 / 3, 0.5, 0.9, 0.999, 1 - 2 ** -24, 2 ** -20]


def gen_case(rng, thorough, idx):
    fam, Y, X = gen_pair(rng, thorough, maxn=1500 if thorough else 400)
    n = len(X)
    if rng.random() < 0.5:                     # skew: one big stratum + small ones (strata smaller than the quota)
        k = rng.randint(1, 6)
        big = max(1, n - k)
        X = [0] * big + list(range(1, n - big + 1))
        if rng.random() < 0.5:
            rng.shuffle(X)
        fam += '+skew'
        if rng.random() < 0.3:
            Y = X[:]
            fam += '+self'
    r_py = rng.choice(RATIOS + [0.7, 0.9, 0.35, 0.15, 0.55, 0.3]) if rng.random() < 0.7 else rng.choice([rng.uniform(0.01, 0.99), round(rng.uniform(0.01, 0.99), 2)])
    if rng.random() < 0.25 and n >= 10:
        # r*n numerically an integer while float32(r) < r (0.7 of 10 rows): the estimator takes the ratio as float32
        n = (n // 10) * 10
        Y, X = Y[:n], X[:n]
        r_py = rng.choice([0.7, 0.9, 0.35, 0.15, 0.55])
    r = float(np.float32(r_py))
    cc = rng.random() < 0.5
    # `r`: the float32 value (what the estimator receives, the model's exact ratio); `r_py`: the Python float handed to numba_mi /
    # conduct_feature_ranking, as the CLI does with --mi_stratified_sampling_ratio
    return {'id': idx, 'family': fam, 'Y': Y, 'X': X, 'r': r, 'r_py': r_py, 'cc': cc, 'sample': True}


def gen_large(rng, idx):
    """quota floor(floor(r n)/#values) beyond 2^15 (and, thorough, 2^16): 2-3 target values over 70000..200000 rows"""
    k = rng.choice([2, 2, 3])
    n = rng.choice([70000, 100000, 140000]) if k == 2 else rng.choice([140000, 200000])
    X = [i % k for i in range(n)] if rng.random() < 0.5 else [rng.randrange(k) for _ in range(n)]
    Y = [rng.randrange(rng.choice([2, 9])) for _ in range(n)]
    r = float(np.float32(rng.choice([0.999, 1 - 2 ** -24, 0.97])))
    return {'id': idx, 'family': 'large-quota', 'Y': Y, 'X': X, 'r': r, 'cc': rng.random() < 0.5, 'sample': True, 'nomodel': True}


def run_worker(path, ncases, perturb):
    """returns {id: result}; a crash is recorded for the case in flight and the worker is restarted after it"""
    res = {}
    start = 0
    env = dict(os.environ, MALLOC_PERTURB_=perturb)
    while start < ncases:
        p = subprocess.run([sys.executable, os.path.join(VERIF, 'harness', 'mi_worker.py'), path, str(start)],
                           stdout=subprocess.PIPE, stderr=subprocess.PIPE, env=env, timeout=3600)
        inflight = None
        done = 0
        for ln in p.stdout.decode().splitlines():
            try:
                o = json.loads(ln)
            except Exception:
                continue
            if o.get('begin'):
                inflight = o['id']
            else:
                res[o['id']] = o
                inflight = None
                done += 1
        if p.returncode == 0:
            break
        # crashed
        sig = -p.returncode if p.returncode < 0 else p.returncode
        if inflight is not None:
            res[inflight] = {'id': inflight, 'crash': f'signal/exit {sig}'}
            done += 1
        elif done == 0:
            raise RuntimeError('worker failed before the first case: ' + p.stderr.decode()[-500:])
        start += done
    return res


def stated_rows(X, r: Fraction):
    """the property's own words: per distinct target value (ascending) the first floor(floor(r n)/#values) rows carrying it;
    all rows when that quota is 0.  Cross-checked against the Lean model on every modelled case of a run."""
    n = len(X)
    vals = sorted(set(X))
    q = ((r.numerator * n) // r.denominator) // len(vals)
    if q == 0:
        return list(range(n))
    by = {v: [] for v in vals}
    for i, v in enumerate(X):
        if len(by[v]) < q:
            by[v].append(i)
    return [i for v in vals for i in by[v]]


def evaluate(ctx: Ctx, cases, oracle_only=False):
    for i, c in enumerate(cases):
        c['id'] = i
    # model: sampled rows, sample, value.  Cases marked `nomodel` (10^5 rows: the executable model is too slow there) are
    # judged by the statement alone: the sampled vectors are the stated sample, one finite value under every allocator history,
    # unchanged when the feature is altered outside the sample.
    req = []
    modelled = [c for c in cases if not c.get('nomodel')]
    for c in modelled:
        r = Fraction(c['r'])
        req.append(line(Atom('MI'), Atom('rows'), c['X'], r.numerator, r.denominator))
        req.append(line(Atom('MI'), Atom('sample'), c['Y'], c['X'], r.numerator, r.denominator))
        req.append(est_line(c['Y'], c['X'], r, c['cc']))
    rep = run_driver(req)
    rng = ctx.rng
    for k, c in enumerate(modelled):
        rows, samp, val = rep[3 * k:3 * k + 3]
        c['_rows'], c['_samp'], c['_val'] = rows, samp, val
        if isinstance(rows, list) and rows != stated_rows(c['X'], Fraction(c['r'])):
            raise RuntimeError(f'harness: stated_rows disagrees with the Lean model on X={c["X"][:40]} r={c["r"]!r}')
    for c in cases:
        if c.get('nomodel'):
            rows = stated_rows(c['X'], Fraction(c['r']))
            c['_rows'], c['_samp'], c['_val'] = rows, [[c['Y'][i] for i in rows], [c['X'][i] for i in rows]], None
    for c in cases:
        rows = c['_rows']
        outside = sorted(set(range(len(c['X']))) - set(rows))
        if outside:
            pick = rng.sample(outside, min(len(outside), 3))
            c['alt'] = [[i, rng.randrange(0, max(c['Y']) + 3)] for i in pick]
        else:
            c['alt'] = None
    with tempfile.NamedTemporaryFile('w', suffix='.jsonl', delete=False, dir=os.path.join(VERIF, '.cache') if os.path.isdir(os.path.join(VERIF, '.cache')) else None) as fh:
        for c in cases:
            fh.write(json.dumps({k: v for k, v in c.items() if not k.startswith('_')}) + '\n')
        path = fh.name
    # split into chunks so that several fresh processes run in parallel
    nchunk = 4
    chunks = [cases[i::nchunk] for i in range(nchunk)]
    paths = []
    for ch in chunks:
        with tempfile.NamedTemporaryFile('w', suffix='.jsonl', delete=False) as fh:
            for c in ch:
                fh.write(json.dumps({k: v for k, v in c.items() if not k.startswith('_')}) + '\n')
            paths.append((fh.name, len(ch)))
    os.unlink(path)
    jobs = [(p, n, pert) for (p, n) in paths for pert in PERTURB]
    with ThreadPoolExecutor(max_workers=12) as ex:
        outs = list(ex.map(lambda j: run_worker(*j), jobs))
    for p, _ in paths:
        os.unlink(p)
    by_pert = {pert: {} for pert in PERTURB}
    for (p, n, pert), o in zip(jobs, outs):
        by_pert[pert].update(o)
    for c in cases:
        ctx.evaluations += 1
        n = len(c['X'])
        r = Fraction(c['r'])
        kvals = len(set(c['X']))
        size = (r.numerator * n) // r.denominator
        q = size // kvals
        rows = c['_rows']
        ctx.count('quota=0' if q == 0 else ('tail-uninitialised' if len(rows) < size else 'buffer-full'))
        ctx.count('cc' if c['cc'] else 'plain')
        if q > 0 and len(rows) < size:
            ctx.nontrivial.add((hash(tuple(c['X'])), hash(tuple(c['Y'])), c['r']))
        short = f'family={c["family"]} n={n} r={c["r"]!r} cc={c["cc"]} X={c["X"][:14]}{"…" if n > 14 else ""} Y={c["Y"][:14]}{"…" if n > 14 else ""}'
        case = {k: v for k, v in c.items() if not k.startswith('_')}
        results = [by_pert[p].get(c['id']) for p in PERTURB]
        if any(x is None for x in results):
            ctx.notes.append(f'case {c["id"]} missing result')
            continue
        crashed = [x for x in results if 'crash' in x or 'exc' in x]
        if crashed:
            ctx.oracle_fail('abnormal-termination', f'{short}: ' + '; '.join(f'MALLOC_PERTURB_={p}: {x.get("crash") or x.get("exc")}'
                                                                              for p, x in zip(PERTURB, results) if 'crash' in x or 'exc' in x), case)
            continue
        vs = [x['v'] for x in results]
        if not all(math.isfinite(v) for v in vs) or len({repr(v) for v in vs}) != 1:
            ctx.oracle_fail('allocator-dependent', f'{short}: values under MALLOC_PERTURB_ {PERTURB} = {vs} (not one finite value)', case)
            continue
        v = vs[0]
        t = tol(n)
        ctx.traces += 1
        if c.get('nomodel'):
            pass                                 # no model value: the sample and the outside-sample clauses below decide
        elif isinstance(c['_val'], list):
            ctx.corr_fail('model-error', f'{short}: model reports {c["_val"]}', case)
        else:
            if not abs(v - c['_val']) <= t:
                ctx.corr_fail('value', f'{short}: impl {v!r} vs model {c["_val"]!r}', case)
        samp = c['_samp']
        if any('sample_unobservable' in x for x in results):
            ctx.corr_fail('sample-unobservable', f'{short}: stratified_subsampling(Y, X, ratio, values) cannot be called any more: '
                          f'{[x.get("sample_unobservable") for x in results][0]}', case)
        elif any(x.get('Ys') != results[0].get('Ys') or x.get('Xs') != results[0].get('Xs') for x in results):
            ctx.oracle_fail('sample-allocator-dependent', f'{short}: sampled vectors differ across allocator histories', case)
            continue
        if not any('sample_unobservable' in x for x in results) and [results[0].get('Ys'), results[0].get('Xs')] != samp:
            ctx.oracle_fail('sample', f'{short}: sampled (Y,X) {str(results[0].get("Ys"))[:80]} / {str(results[0].get("Xs"))[:80]} is not the stated '
                            f'sample (first floor(floor(r n)/#values) rows per target value) {str(samp)[:160]}', case)
            continue
        if c['alt'] is not None:
            valts = [x.get('valt') for x in results]
            if any(repr(a) != repr(v) for a in valts):
                ctx.oracle_fail('outside-sample', f'{short}: altering Y at unsampled rows {c["alt"]} changes the score {v!r} -> {valts}', case)
        # through numba_mi (the caller that forwards --mi_stratified_sampling_ratio): same finite value, sample-only as well
        vns = [x.get('vn') for x in results]
        name = 'MI-numba-randomized' if c['cc'] else 'MI-numba-3mr'
        if any(a is None or not math.isfinite(a) for a in vns) or len({repr(a) for a in vns}) != 1:
            ctx.oracle_fail('numba_mi-allocator-dependent', f'{short}: numba_mi(heuristic={name!r}, ratio={c["r"]!r}) under MALLOC_PERTURB_ {PERTURB} = {vns}', case)
        else:
            if not abs(vns[0] - v) <= 1e-7:
                ctx.corr_fail('numba_mi', f'{short}: numba_mi(heuristic={name!r}) = {vns[0]!r} but the estimator called directly gives {v!r}', case)
            if c['alt'] is not None:
                vnalts = [x.get('vnalt') for x in results]
                if any(repr(a) != repr(vns[0]) for a in vnalts):
                    ctx.oracle_fail('outside-sample-numba_mi', f'{short}: through numba_mi(heuristic={name!r}, ratio={c["r"]!r}) altering Y at unsampled rows '
                                    f'{c["alt"]} changes the score {vns[0]!r} -> {vnalts}', case)
        # through conduct_feature_ranking (ratio carried by `args`), in a process that has served other ratios before
        vcs = [x.get('vc') for x in results]
        if any(a is None or not math.isfinite(a) for a in vcs) or len({repr(a) for a in vcs}) != 1:
            ctx.oracle_fail('conduct-allocator-dependent', f'{short}: conduct_feature_ranking(heuristic={name!r}, ratio={c["r"]!r}) under MALLOC_PERTURB_ {PERTURB} = {vcs}', case)
        else:
            if c['alt'] is not None:
                vcalts = [x.get('vcalt') for x in results]
                if any(repr(a) != repr(vcs[0]) for a in vcalts):
                    ctx.oracle_fail('outside-sample-conduct', f'{short}: through conduct_feature_ranking(args.heuristic={name!r}, args.mi_stratified_sampling_ratio={c["r"]!r}), '
                                    f'called in a process that scored other cases with other ratios before, altering Y at unsampled rows {c["alt"]} changes the score '
                                    f'{vcs[0]!r} -> {vcalts}', case)
            if not abs(vcs[0] - v) <= 1e-7:
                ctx.corr_fail('conduct', f'{short}: conduct_feature_ranking(heuristic={name!r}, ratio={c["r"]!r}) = {vcs[0]!r} but the estimator called directly gives {v!r}', case)
        ctx.sample({'family': c['family'], 'n': n, 'r': c['r'], 'cc': c['cc'], 'X': c['X'][:20], 'rows': rows[:20], 'value': v})


def corpus():
    X = [0] * 37 + [1, 2, 3]
    return [
        {'family': 'F2', 'Y': X[:], 'X': X[:], 'r': 0.5, 'cc': False, 'sample': True},
        {'family': 'F2b', 'Y': X[:], 'X': X[:], 'r': 0.5, 'cc': True, 'sample': True},
        {'family': 'corpus', 'Y': [1, 0, 1, 0, 2, 2, 0, 1], 'X': [0, 1, 0, 1, 2, 2, 1, 0], 'r': 0.5, 'cc': True, 'sample': True},
        {'family': 'corpus', 'Y': [5, 6, 7, 8], 'X': [0, 0, 0, 1], 'r': 0.75, 'cc': False, 'sample': True},
        # a feature that is constant on every row; the unsampled rows are then altered (unbalanced target strata)
        {'family': 'const-feature', 'Y': [2, 2, 2, 2], 'X': [0, 1, 0, 0], 'r': 0.5, 'cc': False, 'sample': True},
        {'family': 'const-feature', 'Y': [3] * 40, 'X': [0] * 30 + [1] * 8 + [2, 2], 'r': 0.25, 'cc': False, 'sample': True},
    ]


def run(ctx: Ctx):
    n = 6000 if ctx.thorough() else 400
    evaluate(ctx, corpus() + [gen_case(ctx.rng, ctx.thorough(), i) for i in range(n)] +
             [gen_large(ctx.rng, n + i) for i in range(4 if ctx.thorough() else 1)])


def search(ctx: Ctx):
    sub = Ctx(ctx.prop, ctx.tier)
    sub.rng.seed(f'search:{ctx.seed}')
    evaluate(sub, [gen_case(sub.rng, False, i) for i in range(1500)], oracle_only=True)
    return sub.oracle_failures
