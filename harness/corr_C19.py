"""C19 – synthetic categorical data respects its declared shape, domains and seed.

Tie: the real `CategoricalClassification.generate_data`, `_generate_feature`, `generate_random_matrix` and
`outrank_task_generate_data_set` are run with the `np.random` entry points wrapped (cc_common.Recorder); the recorded
draws are the tape on which the Lean model (`C19.generateData (tapeRng tape)`, started from a DEAD generator state) must
reproduce the array exactly – including the error kind for out-of-range structures / empty domains.  The tape generator
checks every recorded draw for well-formedness and for being the draw the model asks for (Lean: `tapeRng`, `tape_wf`).
Oracle (always, on the implementation's own output): shape + int32; per column the Lean-decided `FeatOK` (declared domain,
values inside it, representation) with the attributes `expectedAttr` demands for that column position; the column is what
the j-th `_generate_feature` call returned; every call is repeated from a differently perturbed global generator state
and must return the same array; naive generator / CSV task through the Lean-decided `naiveSpecB`."""
from __future__ import annotations

import os
import tempfile
import types

import numpy as np

from cc_common import Recorder, attr_py, attr_wire, struct_py, struct_wire
from vp_common import Atom, Ctx, line, run_driver

PROP = 'C19'
RULE = ('generate_data over n_features 0..9, n_samples 0..60 (thorough: ..400), cardinalities placed at |domain| in {n-1, n, n+1} '
        'and elsewhere, structures mixing single indices / index lists (python lists and ndarrays) x cardinality / value list / '
        '(values, frequencies) with gaps, plus adversarial families: decreasing or repeated indices (precondition of declared '
        'positions false: position clause skipped, counted), out-of-range indices (IndexError), empty domains / population smaller '
        'than the requested cardinality (ValueError), value lists outside int32; random_values with [low, high] windows around the '
        'cardinality; direct _generate_feature calls of every argument kind; naive generator for num_features 25..45 (<= 30: '
        'IndexError guard) x sizes 0..30 and the default 100 x 20000; CSV task. Non-trivial = a structure with a declared entry and a '
        'gap column, or ensure_rep with |domain| within 1 of n_samples, or a naive matrix with both labels; distinct = distinct arguments.')
ASSUMPTIONS = ['numpy global generator is an external: its draws are recorded and replayed; their well-formedness (no-replacement draw '
               'duplicate-free inside the population, weighted draw inside the domain, shuffle = permutation) is a hypothesis of the '
               'theorems, checked on every recorded draw by the Lean tape generator',
               'the model is blind to probabilities (scipy norm.pdf, frequencies): valid frequency vectors (same length, >= 0, sum > 0) assumed',
               'declared positions hold for strictly increasing in-range structure indices (the code never looks back: '
               'declared_positions_needs_increasing); other structures are checked for everything but the position clause',
               'direct _generate_feature(vec=None, p=...) (default domain with explicit probabilities) is outside the model: not generated',
               'int32: value lists outside the int32 range wrap (modelled by wrap32; "values in domain" then reads modulo 2^32)']

KEYS = ['domain-declared', 'shape', 'domain', 'ensure-rep']


# ------------------------------------------------------------------------------------------------
# generators

def near(rng, n, lo=1):
    return max(lo, n + rng.choice([-1, 0, 0, 1]))


def gen_values(rng, m, wide=False):
    if wide:
        pool = [2 ** 31 + 5, -2 ** 31 - 1, 2 ** 32 + 3, -7, 0, 2 ** 31 - 1, -2 ** 31, 12345678901]
        return rng.sample(pool, min(m, len(pool)))
    base = rng.choice([0, 0, 5, 100, -20])
    step = rng.choice([1, 1, 2, 7])
    vals = [base + step * i for i in range(m)]
    if rng.random() < 0.3:
        rng.shuffle(vals)
    if m >= 2 and rng.random() < 0.05:
        vals[-1] = vals[0]                      # a duplicated domain value
    return vals


def gen_attr(rng, nS):
    kind = rng.choice(['card', 'card', 'vals', 'vals', 'freq'])
    m = near(rng, nS) if rng.random() < 0.5 else rng.randint(1, 12)
    m = min(m, 70)
    if kind == 'card':
        return ['card', m if rng.random() > 0.03 else 0]
    vals = gen_values(rng, m, wide=rng.random() < 0.04)
    if kind == 'vals':
        return ['vals', vals]
    w = [rng.choice([0, 1, 1, 2, 5]) for _ in vals]
    if sum(w) == 0:
        w[rng.randrange(len(w))] = 3
    if rng.random() < 0.5:
        tot = sum(w)
        w = [x / tot for x in w]
    return ['freq', vals, [float(x) for x in w]]


def gen_structure(rng, nF, nS):
    fam = rng.choices(['increasing', 'decreasing', 'repeat', 'oob', 'empty'], [70, 8, 8, 10, 4])[0]
    if fam == 'empty' or nF == 0 and fam != 'oob':
        return ([] if rng.random() < 0.5 else [['many', [], gen_attr(rng, nS)]]), 'empty'
    d = rng.randint(1, min(max(nF, 1), 5))
    ixs = sorted(rng.sample(range(max(nF, 1)), min(d, max(nF, 1))))
    if fam == 'oob':
        ixs = ixs[:-1] + [nF + rng.choice([0, 0, 1, 3])]
    entries = []
    i = 0
    while i < len(ixs):
        if rng.random() < 0.4:
            j = rng.randint(i + 1, len(ixs))
            entries.append(['many', ixs[i:j], gen_attr(rng, nS)])
            i = j
        else:
            entries.append(['single', ixs[i], gen_attr(rng, nS)])
            i += 1
    if fam == 'decreasing' and len(entries) >= 1:
        if len(entries) == 1 and entries[0][0] == 'many':
            entries[0][1] = entries[0][1][::-1]
        else:
            entries = entries[::-1]
    if fam == 'repeat':
        e = rng.choice(entries)
        rep = e[1] if e[0] == 'single' else (e[1][0] if e[1] else 0)
        entries.insert(rng.randrange(len(entries) + 1), ['single', rep, gen_attr(rng, nS)])
    return entries, fam


def gen_window(rng, card):
    low = rng.choice([0, 0, 1, -20, 50])
    pop = rng.choice([max(card - 1, 0), card, card, card + 3, 1000, 40])
    if rng.random() < 0.1:                        # wide bounds: candidate ranges around and beyond 2^16 values
        pop = rng.choice([65535, 65536, 65537, 70000, 200000])
    return low, low + pop - 1


def gen_data(rng, thorough):
    nS = rng.choice([0, 1, 2, 3, 4, 5, 8, 13, 30, 60] + ([200, 400] if thorough else []))
    nF = rng.choice([0, 1, 2, 3, 4, 5, 6, 7, 9])
    card = near(rng, nS) if rng.random() < 0.5 else rng.randint(1, 12)
    card = min(card, 70)
    if rng.random() < 0.02:
        card = 0
    rv = rng.random() < 0.35
    low, high = gen_window(rng, card) if rv else (rng.choice([0, 0, 0, 3, -5]), 1000)
    if rng.random() < 0.3:
        structure, fam = None, 'none'
    else:
        structure, fam = gen_structure(rng, nF, nS)
    return {'t': 'data', 'nF': nF, 'nS': nS, 'card': card, 'structure': structure, 'fam': fam, 'ensure_rep': rng.random() < 0.6,
            'random_values': rv, 'low': low, 'high': high, 'k': rng.choice([10, 10, 1, 2, 0.5, 50]),
            'seed': rng.choice([42, 0, rng.randrange(2 ** 32)]), 'pre': [rng.randrange(2 ** 31), rng.randrange(2 ** 31)],
            'ixarr': rng.random() < 0.3, 'iterable': rng.choice(['list', 'list', 'list', 'iter', 'generator', 'zip', 'tuple'])}


def gen_feat(rng, thorough):
    nS = rng.choice([0, 1, 2, 3, 5, 8, 13, 30] + ([300] if thorough else []))
    attr = gen_attr(rng, nS)
    rv = attr[0] == 'card' and rng.random() < 0.5
    low, high = gen_window(rng, attr[1]) if rv else (rng.choice([0, 0, 3, -5]), 1000)
    return {'t': 'feat', 'nS': nS, 'attr': attr, 'ensure_rep': rng.random() < 0.7, 'random_values': rv, 'low': low, 'high': high,
            'k': rng.choice([10, 1, 2, 0.5, 50]), 'pre': [rng.randrange(2 ** 31)]}


def gen_naive(rng, thorough):
    return {'t': rng.choice(['naive', 'naive', 'task']), 'nf': rng.choice([25, 30, 31, 31, 32, 40, 45]), 'size': rng.choice([0, 1, 2, 5, 12, 30]),
            'pre': [rng.randrange(2 ** 31)]}


def gen(rng, thorough):
    r = rng.random()
    return gen_data(rng, thorough) if r < 0.7 else gen_feat(rng, thorough) if r < 0.88 else gen_naive(rng, thorough)


# ------------------------------------------------------------------------------------------------
# the real code

def call_attr(kw):
    if kw['vec'] is None:
        return ['card', int(kw['cardinality'])]
    if kw['p'] is not None:
        return ['freq', [int(v) for v in np.asarray(kw['vec']).tolist()]]
    return ['vals', [int(v) for v in np.asarray(kw['vec']).tolist()]]


def instrument(cc, rec, calls):
    orig = cc._generate_feature

    def wrapped(size, vec=None, cardinality=5, ensure_rep=False, random_values=False, low=0, high=1000, p=None, k=10):
        i0 = len(rec.events)
        ret = orig(size, vec=vec, cardinality=cardinality, ensure_rep=ensure_rep, random_values=random_values, low=low, high=high, p=p, k=k)
        calls.append({'attr': call_attr({'vec': vec, 'cardinality': cardinality, 'p': p}), 'ev': (i0, len(rec.events)),
                      'ret': [int(v) for v in ret.tolist()], 'dtype': str(ret.dtype)})
        return ret
    cc._generate_feature = wrapped


def run_data(c):
    from outrank.algorithms.synthetic_data_generators.cc_generator import CategoricalClassification
    runs = []
    for rep, pre in enumerate(c['pre']):
        cc = CategoricalClassification(seed=pre)
        np.random.random(3 + 5 * rep)                                 # a differently perturbed global state every time
        rec = Recorder()
        calls = []
        instrument(cc, rec, calls)
        kw = dict(n_features=c['nF'], n_samples=c['nS'], cardinality=c['card'], structure=struct_py(c['structure'], c.get('ixarr', False)),
                  ensure_rep=c['ensure_rep'], random_values=c['random_values'], low=c['low'], high=c['high'], k=c['k'], seed=c['seed'])
        kw_call = kw
        if rep == 0 and kw['structure'] and c.get('iterable') in ('iter', 'generator', 'zip', 'tuple'):
            # the same description handed over as a one-shot iterable / a tuple (first run only; the second run passes the list)
            st = kw['structure']
            it = {'iter': lambda: iter(st), 'generator': lambda: (e for e in st), 'zip': lambda: zip([e[0] for e in st], [e[1] for e in st]),
                  'tuple': lambda: tuple(st)}[c['iterable']]()
            kw_call = dict(kw, structure=it)
        with rec:
            try:
                X = cc.generate_data(**kw_call)
                r = {'outcome': 'ok', 'shape': list(X.shape), 'dtype': str(X.dtype), 'cols': [[int(v) for v in col] for col in X.T.tolist()]}
            except Exception as e:                                    # noqa: BLE001
                r = {'outcome': 'raises:' + type(e).__name__, 'msg': str(e)[:100]}
        r['tape'], r['calls'] = rec.events, calls
        runs.append(r)
    # history on ONE generator object: the same call repeated on the object used last, from yet another global state
    np.random.random(11)
    try:
        X2 = cc.generate_data(**kw)
        runs[-1]['reuse'] = {'outcome': 'ok', 'cols': [[int(v) for v in col] for col in X2.T.tolist()]}
    except Exception as e:                                            # noqa: BLE001
        runs[-1]['reuse'] = {'outcome': 'raises:' + type(e).__name__}
    # ... and a third call on that object after the explicit value lists of the SAME structure object were edited in place:
    # the data set is a function of seed and arguments (as they are at the call), not of what the object saw before
    edited = False
    for entry in (kw['structure'] or []):
        attr = entry[1] if isinstance(entry, (list, tuple)) and len(entry) == 2 else None
        vals = attr[0] if isinstance(attr, list) and len(attr) == 2 and isinstance(attr[0], list) else attr
        if isinstance(vals, list) and vals and all(isinstance(v, int) for v in vals):
            for i in range(len(vals)):
                vals[i] += 5000
            edited = True
    if edited:
        def outcome(obj):
            np.random.random(7)
            try:
                Xe = obj.generate_data(**kw)
                return {'outcome': 'ok', 'cols': [[int(v) for v in col] for col in Xe.T.tolist()]}
            except Exception as e:                                    # noqa: BLE001
                return {'outcome': 'raises:' + type(e).__name__}
        runs[-1]['edited_same_object'] = outcome(cc)
        runs[-1]['edited_fresh_object'] = outcome(CategoricalClassification(seed=c['pre'][-1]))
    return runs


def run_feat(c):
    from outrank.algorithms.synthetic_data_generators.cc_generator import CategoricalClassification
    cc = CategoricalClassification(seed=c['pre'][0])
    a = c['attr']
    kw = dict(ensure_rep=c['ensure_rep'], random_values=c['random_values'], low=c['low'], high=c['high'], k=c['k'])
    if a[0] == 'card':
        kw['cardinality'] = a[1]
    else:
        kw['vec'] = list(a[1]) if c['pre'][0] % 2 else np.array(a[1])
        if a[0] == 'freq':
            kw['p'] = list(a[2])
    rec = Recorder()
    with rec:
        try:
            x = cc._generate_feature(c['nS'], **kw)
            r = {'outcome': 'ok', 'shape': list(x.shape), 'dtype': str(x.dtype), 'cols': [[int(v) for v in x.tolist()]]}
        except Exception as e:                                        # noqa: BLE001
            r = {'outcome': 'raises:' + type(e).__name__, 'msg': str(e)[:100]}
    r['tape'] = rec.events
    r['calls'] = [{'attr': attr_case(a), 'ev': (0, len(rec.events))}]
    return [r]


def attr_case(a):
    return [a[0], a[1]]


def run_naive(c):
    import logging
    from outrank import task_generators                      # imported BEFORE recording: generator_naive seeds numpy at import
    from outrank.algorithms.synthetic_data_generators.generator_naive import generate_random_matrix
    logging.getLogger('syn-logger').setLevel(logging.CRITICAL)
    np.random.seed(c['pre'][0])
    rec = Recorder()
    r = {}
    with rec:
        try:
            if c['t'] == 'naive':
                sample, target = generate_random_matrix(c['nf'], c['size'])
                r = {'outcome': 'ok', 'sample': [[int(v) for v in row] for row in sample.tolist()], 'target': [int(v) for v in target.tolist()],
                     'shape': list(sample.shape), 'tshape': list(target.shape)}
            else:
                cwd = os.getcwd()
                with tempfile.TemporaryDirectory(prefix='verif_c19_') as d:
                    os.chdir(d)
                    try:
                        # an existing output directory must be replaced, not merged
                        os.mkdir('out')
                        open(os.path.join('out', 'stale.txt'), 'w').close()
                        task_generators.outrank_task_generate_data_set(types.SimpleNamespace(
                            generator_type='naive', num_synthetic_features=c['nf'], num_synthetic_rows=c['size'], output_synthetic_df_name='out'))
                        files = sorted(os.listdir('out'))
                        rows = [ln.rstrip('\n').split(',') for ln in open(os.path.join('out', 'data.csv'), encoding='utf-8')]
                    finally:
                        os.chdir(cwd)
                body = [[int(v) for v in row] for row in rows[1:]]
                r = {'outcome': 'ok', 'header': rows[0], 'files': files, 'sample': [row[:-1] for row in body], 'target': [row[-1] for row in body],
                     'shape': [len(body), len(rows[0]) - 1], 'tshape': [len(body)]}
        except Exception as e:                                        # noqa: BLE001
            r = {'outcome': 'raises:' + type(e).__name__, 'msg': str(e)[:100]}
    r['tape'] = rec.events
    return [r]


KNOWN_EVS = ('seed', 'cnr', 'ri', 'cp', 'sh')


def model_tape(tape):
    """the prefix of the recorded events the Lean tape understands; False when something else was called"""
    out = []
    for e in tape:
        if str(e[0]) not in KNOWN_EVS:
            return out, False
        out.append(e)
    return out, True


def params_wire(c):
    return [c['nS'], bool(c['ensure_rep']), bool(c['random_values']), c['low'], c['high']]


def declared_dom(c, attr):
    if attr[0] == 'card':
        return None if c['random_values'] else list(range(c['low'], c['low'] + attr[1]))
    return list(attr[1])


# ------------------------------------------------------------------------------------------------

class Batch:
    """collects driver requests of many cases; `flush` runs them in ONE driver process and hands every case its replies"""
    def __init__(self):
        self.req, self.todo = [], []

    def ask(self, lines, cont):
        self.todo.append((len(self.req), len(lines), cont))
        self.req.extend(lines)

    def flush(self):
        rep = run_driver(self.req)
        todo, self.req, self.todo = self.todo, [], []
        for i, n, cont in todo:
            cont(rep[i:i + n])


def evaluate(ctx: Ctx, cases, oracle_only=False):
    for lo in range(0, len(cases), 400):
        b1, b2 = Batch(), Batch()
        for c in cases[lo:lo + 400]:
            if c['t'] in ('data', 'feat'):
                eval_cc(ctx, c, oracle_only, b1, b2)
            else:
                eval_naive(ctx, c, oracle_only, b1)
        b1.flush()
        b2.flush()


def strip(c):
    return {k: v for k, v in c.items() if not k.startswith('_')}


def eval_cc(ctx: Ctx, c, oracle_only, b1, b2):
    runs = run_data(c) if c['t'] == 'data' else run_feat(c)
    r = runs[0]
    ctx.evaluations += 1
    ctx.count('type:' + c['t'])
    ctx.count('outcome:' + r['outcome'])
    case = strip(c)
    P = params_wire(c)
    tape, tape_known = model_tape(r['tape'])
    req = []
    if c['t'] == 'data':
        ctx.count('structure:' + c['fam'])
        req.append(line(Atom(PROP), Atom('gen'), c['nF'], c['nS'], c['card'], struct_wire(c['structure']), P, c['seed'], tape))
        req.append(line(Atom(PROP), Atom('expect'), c['nF'], c['card'], struct_wire(c['structure'])))
    else:
        ctx.count('attr:' + c['attr'][0])
        req.append(line(Atom(PROP), Atom('feat'), P, attr_wire(c['attr']), tape))
    b1.ask(req, lambda rep: eval_cc2(ctx, c, oracle_only, b2, runs, rep, tape, tape_known))


def eval_cc2(ctx: Ctx, c, oracle_only, b2, runs, rep, tape, tape_known):
    r = runs[0]
    case = strip(c)
    P = params_wire(c)
    model = rep[0]
    model_ok = model[0] == Atom('ok')
    nF = c['nF'] if c['t'] == 'data' else 1
    desc = {k: case[k] for k in case if k not in ('pre', 'ixarr', 't', 'fam')}
    # ---- the property on the implementation's own output --------------------------------------
    if r['outcome'] != 'ok':
        if model_ok:
            ctx.oracle_fail('raises', f'{c["t"]} {desc}: arguments inside the property\'s domain (the model generates data for every '
                            f'well-formed generator) but the code raised {r["outcome"][7:]}: {r.get("msg")}', case)
    else:
        if c['t'] == 'data':
            pre_ok = rep[1][0] == Atom('true')
            expected = [list(a) for a in rep[1][1]]
            if r['shape'] != [c['nS'], c['nF']] or r['dtype'] != 'int32':
                ctx.oracle_fail('shape', f'data {desc}: returned array has shape {r["shape"]} dtype {r["dtype"]}, expected '
                                f'({c["nS"]}, {c["nF"]}) int32', case)
            if not pre_ok:
                ctx.count('excluded:positions(non-increasing-or-out-of-range)')
        else:
            pre_ok, expected = True, [attr_wire(c['attr'])]
            if r['shape'] != [c['nS']] or r['dtype'] != 'int32':
                ctx.oracle_fail('shape', f'feat {desc}: returned vector has shape {r["shape"]} dtype {r["dtype"]}, expected ({c["nS"]},) int32', case)
        calls = r['calls']
        aligned = len(calls) == nF and len(r['cols']) == nF
        sreq, smeta = [], []
        for j, col in enumerate(r['cols'][:nF]):
            if pre_ok:
                attr = expected[j]
            elif aligned:
                attr = attr_wire(calls[j]['attr'])
            else:
                continue
            attr_c = [str(attr[0]), attr[1]]
            dom = None
            if aligned:
                cps = [e for e in r['tape'][calls[j]['ev'][0]:calls[j]['ev'][1]] if str(e[0]) == 'cp']
                if cps:
                    dom = cps[-1][1]
                if c['t'] == 'data' and calls[j]['ret'] != col:
                    ctx.oracle_fail('position', f'data {desc}: column {j} of the result {col[:8]} is not what the {j}-th generated feature '
                                    f'({calls[j]["attr"]}) returned {calls[j]["ret"][:8]}', case)
            if dom is None:
                dom = declared_dom(c, attr_c)
            if dom is None:
                ctx.count('skipped:random-domain-unobservable')
                continue
            sreq.append(line(Atom(PROP), Atom('spec'), P, attr, dom, col))
            smeta.append((j, attr_c, dom, col))
        b2.ask(sreq, lambda reps: eval_cc3(ctx, c, case, desc, smeta, reps))
        if c['t'] == 'data' and c['structure'] and pre_ok and any(str(a[0]) != 'card' or a[1] != c['card'] for a in expected) and \
                len({repr(a) for a in expected}) > 1:
            ctx.nontrivial.add(repr(case))
    if c['t'] == 'data':
        r2 = runs[1]
        ru = r2.get('reuse')
        if ru is not None and (ru['outcome'], ru.get('cols')) != (r2['outcome'], r2.get('cols')):
            ctx.oracle_fail('seed-same-object', f'data {desc}: generate_data called twice on ONE generator object with the same seed {c["seed"]} and '
                            f'arguments gives different results: {str(r2.get("cols", r2["outcome"]))[:80]} vs {str(ru.get("cols", ru["outcome"]))[:80]}', case)
        ea, eb = r2.get('edited_same_object'), r2.get('edited_fresh_object')
        if ea is not None:
            ctx.count('structure-edited-in-place-then-recalled')
            if ea != eb:
                ctx.oracle_fail('seed-edited-structure', f'data {desc}: after the value lists of the structure were edited in place (+5000) the used generator '
                                f'object returns {str(ea.get("cols", ea["outcome"]))[:90]} but a fresh object with the same seed and arguments returns '
                                f'{str(eb.get("cols", eb["outcome"]))[:90]}', case)
        if (r2['outcome'], r2.get('cols')) != (r['outcome'], r.get('cols')):
            ctx.oracle_fail('seed', f'data {desc}: same seed {c["seed"]} and arguments, different prior generator state -> different result: '
                            f'{str(r.get("cols", r["outcome"]))[:80]} vs {str(r2.get("cols", r2["outcome"]))[:80]}', case)
    # ---- correspondence ----------------------------------------------------------------------
    if not oracle_only:
        ctx.traces += 1
        if not tape_known:
            ctx.corr_fail('tape-unexpected-call', f'{c["t"]} {desc}: the code made a generator call the model does not know: '
                          f'{[str(e[0]) for e in r["tape"]][:12]}', case)
        elif model_ok != (r['outcome'] == 'ok'):
            ctx.corr_fail('outcome', f'{c["t"]} {desc}: impl {r["outcome"]} vs model {model[0]} {model[1] if not model_ok else ""}', case)
        elif not model_ok:
            if 'raises:' + str(model[1]) != r['outcome']:
                ctx.corr_fail('error-kind', f'{c["t"]} {desc}: impl {r["outcome"]} vs model {model[1]}', case)
        else:
            mcols = [[int(v) for v in f[1]] for f in model[3]]
            if model[1] != Atom('true') or model[2] != 0:
                ctx.corr_fail('tape-mismatch', f'{c["t"]} {desc}: the recorded draws are not the draws the model asks for / are ill-formed '
                              f'(flag={model[1]}, unconsumed={model[2]}); kinds={[str(e[0]) for e in tape][:14]}', case)
            elif mcols != r['cols']:
                ctx.corr_fail('array', f'{c["t"]} {desc}: impl {str(r["cols"])[:100]} != model {str(mcols)[:100]}', case)
    ctx.sample({'case': desc, 'outcome': r['outcome'], 'cols': [col[:8] for col in r.get('cols', [])[:4]]})


def eval_cc3(ctx: Ctx, c, case, desc, smeta, reps):
    for (j, attr_c, dom, col), flags in zip(smeta, reps):
        if flags[4] != Atom('true'):
            bad = [KEYS[i] for i in range(4) if flags[i] != Atom('true')]
            what = {'domain-declared': f'its domain {dom[:10]} is not the declared one',
                    'shape': f'it has {len(col)} values', 'domain': f'values {sorted(set(col) - set(dom))[:6]} are outside its domain {dom[:10]}',
                    'ensure-rep': f'domain values {sorted(set(dom) - set(col))[:6]} never occur although |domain| = {len(dom)} <= n_samples'}
            ctx.oracle_fail(bad[0], f'{c["t"]} {desc}: column {j} (declared {attr_c}, n_samples={c["nS"]}, ensure_rep={c["ensure_rep"]}, '
                            f'random_values={c["random_values"]}, low={c["low"]}, high={c["high"]}): ' + '; '.join(what[b] for b in bad)
                            + f' | column = {col[:12]}', case)
        if c['ensure_rep'] and abs(len(dom) - c['nS']) <= 1:
            ctx.count('rep-boundary:|dom|-n=%d' % (len(dom) - c['nS']))
            ctx.nontrivial.add(repr(case))


def eval_naive(ctx: Ctx, c, oracle_only, b1):
    r = run_naive(c)[0]
    ctx.evaluations += 1
    ctx.count('type:' + c['t'])
    ctx.count('outcome:' + r['outcome'])
    case = strip(c)
    desc = f'{c["t"]} num_features={c["nf"]} size={c["size"]}'
    rims = [e for e in r['tape'] if str(e[0]) == 'rim']
    guard = c['nf'] <= 30
    if len(rims) != 1 or len(r['tape']) != 1 or rims[0][1:5] != [10, 100, c['size'], c['nf']]:
        ctx.corr_fail('tape-mismatch', f'{desc}: expected exactly one randint(10, 100, ({c["size"]}, {c["nf"]})) draw, saw '
                      f'{[[str(e[0])] + e[1:5] for e in r["tape"]][:4]}', case)
        raw = None
    else:
        raw = rims[0][5]
        if any(not (10 <= v < 100) for row in raw for v in row) or len(raw) != c['size'] or any(len(row) != c['nf'] for row in raw):
            ctx.corr_fail('draw-ill-formed', f'{desc}: randint returned values outside [10,100) or a wrong shape', case)
    if r['outcome'] != 'ok':
        if not guard:
            ctx.oracle_fail('raises', f'{desc}: raised {r["outcome"][7:]}: {r.get("msg")} although num_features > 30', case)
        elif r['outcome'] != 'raises:IndexError' and not oracle_only:
            ctx.corr_fail('error-kind', f'{desc}: impl {r["outcome"]} vs model IndexError', case)
        ctx.count('naive-guard')
        return
    if guard:
        if not oracle_only:
            ctx.corr_fail('outcome', f'{desc}: impl returned data, the model raises IndexError (num_features <= 30)', case)
        return
    if raw is None:
        return
    req = [line(Atom(PROP), Atom('naivespec'), c['nf'], raw, r['sample'], r['target']), line(Atom(PROP), Atom('naive'), c['nf'], raw)]
    b1.ask(req, lambda rep: eval_naive2(ctx, c, oracle_only, r, raw, case, desc, rep))


def eval_naive2(ctx: Ctx, c, oracle_only, r, raw, case, desc, rep):
    spec, model = rep
    if spec != Atom('true') or r['shape'] != [c['size'], c['nf']] or r['tshape'] != [c['size']]:
        bad = [i for i, (row, t) in enumerate(zip(raw, r['target'])) if t != (1 if row[30] >= 40 else 0)]
        ctx.oracle_fail('naive-label', f'{desc}: (sample, target) is not (raw with column 30 := label, label = [raw needle >= 40]); shapes '
                        f'{r["shape"]} {r["tshape"]}; first rows with a wrong label: {[(raw[i][30], r["target"][i]) for i in bad[:4]]}; '
                        f'needle column {[row[30] for row in r["sample"]][:8]} vs target {r["target"][:8]}', case)
    if c['t'] == 'task':
        want = [f'f{i}' for i in range(c['nf'])] + ['label']
        if r['header'] != want or r['files'] != ['data.csv']:
            ctx.oracle_fail('csv-layout', f'{desc}: header {r["header"][:4]}..{r["header"][-2:]} / files {r["files"]}, expected f0..f{c["nf"]-1},label in a '
                            f'fresh directory holding data.csv only', case)
    if len(set(r['target'])) == 2:
        ctx.nontrivial.add(repr(case))
    if not oracle_only:
        ctx.traces += 1
        if model[0] != Atom('ok') or [list(x) for x in model[1]] != r['sample'] or list(model[2]) != r['target']:
            ctx.corr_fail('naive', f'{desc}: impl sample/target differ from the model on the recorded draw', case)
    ctx.sample({'case': desc, 'target': r['target'][:10]})


def naive_default(ctx: Ctx):
    """the default size (100 x 20000): oracle evaluated with numpy (the matrix is too large for the wire)"""
    from outrank.algorithms.synthetic_data_generators.generator_naive import generate_random_matrix
    np.random.seed(ctx.rng.randrange(2 ** 31))
    raws = []
    orig = np.random.randint

    def rec(*a, **k):
        m = orig(*a, **k)
        raws.append(np.array(m, copy=True))
        return m
    np.random.randint = rec
    try:
        sample, target = generate_random_matrix()
    finally:
        np.random.randint = orig
    ctx.evaluations += 1
    ctx.count('type:naive-default')
    raw = raws[0]
    lab = (raw[:, 30] >= 40).astype(raw.dtype)
    want = raw.copy()
    want[:, 30] = lab
    if sample.shape != (20000, 100) or not np.array_equal(target, lab) or not np.array_equal(sample, want):
        ctx.oracle_fail('naive-label', 'generate_random_matrix() (100 x 20000): (sample, target) is not (raw with column 30 := label, '
                        'label = [raw needle >= 40])', {'t': 'naive-default'})


def corpus():
    return [
        # F11: |domain| = n_samples with representation enforced
        {'t': 'feat', 'nS': 10, 'attr': ['card', 10], 'ensure_rep': True, 'random_values': False, 'low': 0, 'high': 1000, 'k': 10, 'pre': [1]},
        {'t': 'data', 'nF': 3, 'nS': 6, 'card': 6, 'structure': None, 'fam': 'none', 'ensure_rep': True, 'random_values': False, 'low': 0,
         'high': 1000, 'k': 10, 'seed': 42, 'pre': [1, 2], 'ixarr': False},
        {'t': 'data', 'nF': 6, 'nS': 5, 'card': 3, 'structure': [['many', [0, 2], ['freq', [5, 6], [0.5, 0.5]]], ['single', 4, ['vals', [9, 10, 11, 12, 13]]]],
         'fam': 'increasing', 'ensure_rep': True, 'random_values': True, 'low': 0, 'high': 9, 'k': 10, 'seed': 7, 'pre': [3, 4], 'ixarr': True},
        {'t': 'data', 'nF': 5, 'nS': 4, 'card': 2, 'structure': [['single', 3, ['vals', [9]]], ['single', 1, ['vals', [7, 8]]]], 'fam': 'decreasing',
         'ensure_rep': False, 'random_values': False, 'low': 0, 'high': 1000, 'k': 10, 'seed': 42, 'pre': [5, 6], 'ixarr': False},
        {'t': 'data', 'nF': 3, 'nS': 4, 'card': 2, 'structure': [['single', 5, ['card', 3]]], 'fam': 'oob', 'ensure_rep': False, 'random_values': False,
         'low': 0, 'high': 1000, 'k': 10, 'seed': 42, 'pre': [5, 6], 'ixarr': False},
        {'t': 'naive', 'nf': 31, 'size': 12, 'pre': [9]},
        {'t': 'naive', 'nf': 30, 'size': 3, 'pre': [9]},
        {'t': 'task', 'nf': 33, 'size': 7, 'pre': [11]},
    ]


def run(ctx: Ctx):
    n = 15000 if ctx.thorough() else 3000
    evaluate(ctx, corpus() + [gen(ctx.rng, ctx.thorough()) for _ in range(n)])
    naive_default(ctx)


def search(ctx: Ctx):
    sub = Ctx(ctx.prop, ctx.tier)
    sub.rng.seed(f'search:{ctx.seed}')
    evaluate(sub, [gen(sub.rng, True) for _ in range(3000)], oracle_only=True)
    return sub.oracle_failures
