"""C15 – frequency sketches err on one side only.
Tie: real CountMinSketch (add / batch_add / query / get_matrix) and PrimitiveConstrainedCounter.add vs the Lean model;
the hash is an external: the harness ships the real `cms_hash` locations of every (item,row)."""
from __future__ import annotations

from vp_common import Atom, Ctx, line, run_driver

PROP = 'C15'
RULE = ('update streams of (item, weight 0..50; in 30 % of the cases weights from {127,128,255,256,32767,32768,40000,65535,65536,10^6,2^24+1,10^8} with the total kept below 2^31) over ints, strings and mixed int+string item sets (strings spelling the ints, NUL / '
        'space suffixes), fed by add or (40%) by one batch_add, or (20% of the cases) by an interleaving of add / batch_add / query steps whose every answer is judged against the weight added so far; depth 1..8, width mostly 1..8 (forced collisions) '
        'and up to 2^15; fresh numpy seeds; matrix + all queries compared after random prefixes. Counter: item streams '
        'with bounds 0..10. Non-trivial = stream with >=2 distinct items that collide in at least one row (cms) / '
        'stream that reaches the bound (counter); distinct = distinct (shape, stream).')
ASSUMPTIONS = ['numba hash(x) and the seed arithmetic inside cms_hash are externals: locations are taken from the real cms_hash and '
               'checked to lie in [0,width) and to be a function of (item,row)',
               'total weight < 2^31 (int32 cells; explicit hypothesis of the theorems)']


BIG_WEIGHTS = [1, 1, 127, 128, 255, 256, 32767, 32768, 40000, 65535, 65536, 10 ** 6, 2 ** 24 + 1, 10 ** 8]


def gen_cms(rng, thorough):
    depth = rng.randint(1, 8)
    width = rng.choice([1, 2, 3, 4, 5, 8, 8, 16, 64, 1024, 2 ** 15])
    kind = rng.choice(['int', 'str', 'mixed-int-neg', 'int+str', 'int+str'])
    nitems = rng.randint(1, 12)
    if kind == 'int':
        items = rng.sample(range(0, 1000), nitems)
    elif kind == 'mixed-int-neg':
        items = rng.sample(range(-50, 50), nitems)
    elif kind == 'int+str':
        # one stream over ints AND strings (the property's item domain), with strings that spell the ints of the same stream:
        # 1 and '1' are different items and must keep separate weights
        ints = rng.sample(range(-5, 30), max(1, nitems // 2))
        strs = [str(i) for i in ints[:rng.randint(0, len(ints))]] + rng.sample(['a', '', 'é', '1', '-1', '1.0', 'x' * 20, 'a\x00', ' 1'], rng.randint(1, 4))
        items = list(dict.fromkeys(ints + strs))          # 1 == True-style aliasing cannot occur: ints and strs never compare equal
        rng.shuffle(items)
    else:
        alphabet = ['a', 'b', 'ab', 'ba', '', 'é', '1', '11', 'x' * 20, 'label', 'ž', 'a\x00', 'a ']
        items = rng.sample(alphabet, min(nitems, len(alphabet)))
    n = rng.choice([0, 1, 2, 5, 20, 60] + ([300] if thorough else []))
    if rng.random() < 0.06:
        # a high-cardinality stream: more than 2^10 distinct items, no query before the end
        kind = 'many-distinct'
        nitems = rng.choice([1025, 1500, 2600])
        items = [f's{i}' if i % 3 == 0 else i for i in range(nitems)]
        width = rng.choice([64, 1024, 2 ** 15])
        n = nitems + rng.randint(0, 200)
    batch = rng.random() < 0.4
    big = rng.random() < 0.3              # weights around the limits of narrower cell types; the total stays below 2^31
    pool = BIG_WEIGHTS if big else [0, 1, 1, 1, 2, 7, 50]
    d0 = rng.choice(BIG_WEIGHTS if big else [1, 1, 1, 2, 7, 0])
    ops, total = [], 0
    for j in range(n):
        w = d0 if batch else rng.choice(pool)
        if total + w >= 2 ** 31 - 1:
            w = 1 if not batch else d0
            if total + w >= 2 ** 31 - 1:
                break
        total += w
        ops.append(((j if kind == 'many-distinct' and j < len(items) else rng.randrange(len(items))), w))
    return {'t': 'cms', 'depth': depth, 'width': width, 'items': items, 'ops': ops, 'npseed': rng.randrange(2 ** 31),
            'batch': batch, 'kind': kind}


def gen_mixed(rng, thorough):
    """one sketch driven by an interleaving of add / batch_add / query: every answer must bound the weight added SO FAR"""
    c = gen_cms(rng, thorough)
    items = c['items']
    steps = []
    big = rng.random() < 0.3
    for _ in range(rng.choice([3, 6, 12, 30])):
        u = rng.random()
        if u < 0.4:
            steps.append(['add', rng.randrange(len(items)), rng.choice(BIG_WEIGHTS[:12] if big else [0, 1, 1, 2, 7])])
        elif u < 0.65:
            steps.append(['batch', [rng.randrange(len(items)) for _ in range(rng.randint(0, 6))], rng.choice([1, 40000, 65536] if big else [1, 1, 3])])
        else:
            steps.append(['query', rng.randrange(len(items))])
    return {'t': 'mixed', 'depth': c['depth'], 'width': c['width'], 'items': items, 'steps': steps, 'npseed': c['npseed'], 'kind': c['kind']}


def run_mixed(c):
    import numpy as np
    from outrank.algorithms.sketches.counting_cms import CountMinSketch
    np.random.seed(c['npseed'])
    s = CountMinSketch(c['depth'], c['width'])
    items = c['items']
    true = [0] * len(items)
    total = 0
    log = []
    for st in c['steps']:
        if st[0] == 'add':
            s.add(items[st[1]], st[2]); true[st[1]] += st[2]; total += st[2]
        elif st[0] == 'batch':
            s.batch_add([items[i] for i in st[1]], st[2])
            for i in st[1]:
                true[i] += st[2]
            total += st[2] * len(st[1])
        else:
            log.append([st[1], int(s.query(items[st[1]])), true[st[1]], total])
    final = [[i, int(s.query(items[i])), true[i], total] for i in range(len(items))]
    rows = [int(sum(int(v) for v in row)) for row in s.get_matrix()]
    return {'log': log, 'final': final, 'rows': rows, 'total': total}


def eval_mixed(ctx: Ctx, cases):
    for c in cases:
        r = run_mixed(c)
        ctx.evaluations += 1
        ctx.count('type:mixed')
        ctx.count('items:' + c.get('kind', 'corpus'))
        if any(st[0] == 'query' for st in c['steps'][:-1]) and any(st[0] == 'batch' for st in c['steps']):
            ctx.nontrivial.add(repr(('mixed', c['depth'], c['width'], c['steps'])))
        bad = None
        for when, recs in (('mid-stream', r['log']), ('final', r['final'])):
            for i, q, tw, tot in recs:
                if not (tw <= q <= tot):
                    bad = f'{when} query of item {c["items"][i]!r} = {q}, but its accumulated weight so far is {tw} and the total added is {tot}'
                    break
            if bad:
                break
        if bad is None and any(x != r['total'] for x in r['rows']):
            bad = f'row sums {r["rows"]} != total weight {r["total"]}'
        if bad:
            ctx.oracle_fail('cms-interleaved', f'depth={c["depth"]} width={c["width"]} steps={c["steps"][:8]}{"…" if len(c["steps"]) > 8 else ""}: {bad}', c)


def gen_ctr(rng, thorough):
    bound = rng.randint(0, 10)
    nvals = rng.randint(1, 14)
    n = rng.choice([0, 1, 3, 10, 40, 120])
    # `peeks`: positions after which the caller READS the count of a value that was never fed (counter.default_counter[x]) –
    # looking must not change what is tracked
    return {'t': 'ctr', 'bound': bound, 'vals': [rng.randrange(nvals) for _ in range(n)],
            'peeks': sorted(rng.sample(range(n + 1), min(n + 1, rng.choice([0, 0, 1, 3, 8]))))}


def run_impl(c):
    import numpy as np
    if c['t'] == 'cms':
        from outrank.algorithms.sketches.counting_cms import CountMinSketch, cms_hash
        np.random.seed(c['npseed'])
        s = CountMinSketch(c['depth'], c['width'])
        items = c['items']
        locs = [[int(cms_hash(x, s.hash_seeds[i], s.width)) for i in range(s.depth)] for x in items]
        if c['batch'] and c['ops'] and all(d == c['ops'][0][1] for _, d in c['ops']):
            s.batch_add([items[i] for i, _ in c['ops']], c['ops'][0][1])
        else:
            for i, d in c['ops']:
                s.add(items[i], d)
        locs2 = [[int(cms_hash(x, s.hash_seeds[i], s.width)) for i in range(s.depth)] for x in items]
        M = [[int(v) for v in row] for row in s.get_matrix()]
        qs = [int(s.query(x)) for x in items]
        return {'locs': locs, 'locs_stable': locs == locs2 and all(0 <= l < c['width'] for r in locs for l in r),
                'M': M, 'q': qs}
    from outrank.algorithms.sketches.counting_counters_ordinary import PrimitiveConstrainedCounter
    pc = PrimitiveConstrainedCounter(c['bound'])
    peeks = set(c.get('peeks', []))
    for j, v in enumerate(c['vals']):
        if j in peeks:
            _ = pc.default_counter[10 ** 6 + j]
        pc.add(v)
    if len(c['vals']) in peeks:
        _ = pc.default_counter['never fed']
    return {'res': [[k, v] for k, v in pc.default_counter.items()]}


def evaluate(ctx: Ctx, cases, oracle_only=False):
    eval_mixed(ctx, [c for c in cases if c['t'] == 'mixed'])
    cases = [c for c in cases if c['t'] != 'mixed']
    impl = [run_impl(c) for c in cases]
    req = []
    for c, r in zip(cases, impl):
        if c['t'] == 'cms':
            ops = [[i, d] for i, d in c['ops']]
            req.append(line(Atom(PROP), Atom('cms'), c['depth'], c['width'], ops, r['locs']))
            req.append(line(Atom(PROP), Atom('cmsspec'), len(c['items']), ops, r['M'], r['q']))
        else:
            # entries for values that were never fed cannot be sent to the spec op (its keys are the fed ints): judged here
            r['phantom'] = [kv for kv in r['res'] if kv[0] not in c['vals'] or isinstance(kv[0], str)]
            sane = [kv for kv in r['res'] if kv not in r['phantom']]
            req.append(line(Atom(PROP), Atom('ctr'), c['bound'], c['vals']))
            req.append(line(Atom(PROP), Atom('ctrspec'), c['bound'], c['vals'], sane))
    rep = run_driver(req)
    for k, (c, r) in enumerate(zip(cases, impl)):
        model, spec = rep[2 * k], rep[2 * k + 1]
        ctx.evaluations += 1
        ctx.count('type:' + c['t'])
        if c['t'] == 'cms':
            ctx.count('items:' + c.get('kind', 'corpus'))
            ctx.count('path:' + ('batch_add' if c['batch'] and c['ops'] else 'add'))
            ctx.count('width:%d' % c['width'])
            ctx.count('depth:%d' % c['depth'])
            used = {i for i, _ in c['ops']}
            collide = any(r['locs'][a][row] == r['locs'][b][row] for a in used for b in used if a < b for row in range(c['depth']))
            if len(used) >= 2 and collide:
                ctx.nontrivial.add(repr((c['depth'], c['width'], c['ops'], c['items'])))
            if not r['locs_stable']:
                ctx.oracle_fail('hash-not-function', f'cms_hash locations are not a stable function into [0,width): {r["locs"]}', c)
            if not oracle_only:
                ctx.traces += 1
                if model[0] != r['M'] or [int(x) for x in model[1]] != r['q']:
                    ctx.corr_fail('cms', f'depth={c["depth"]} width={c["width"]} ops={c["ops"][:8]}..: impl matrix/queries {str(r["M"])[:120]} {r["q"]} '
                                  f'!= model {str(model[0])[:120]} {model[1]}', c)
            if spec != Atom('true'):
                tot = sum(d for _, d in c['ops'])
                ctx.oracle_fail('cms-bounds', f'depth={c["depth"]} width={c["width"]} total={tot} ops={c["ops"][:10]}: queries {r["q"]} / row sums '
                                f'{[sum(x) for x in r["M"]]} violate true<=query<=total or rowsum=total', c)
            ctx.sample({'depth': c['depth'], 'width': c['width'], 'items': c['items'], 'ops': c['ops'][:6], 'queries': r['q']})
        else:
            distinct = len(set(c['vals']))
            if distinct >= c['bound'] and c['vals']:
                ctx.nontrivial.add(repr((c['bound'], c['vals'])))
            ctx.count('ctr-reaches-bound' if distinct >= c['bound'] else 'ctr-below-bound')
            if not oracle_only:
                ctx.traces += 1
                if [list(x) for x in model] != r['res']:
                    ctx.corr_fail('ctr', f'bound={c["bound"]} vals={c["vals"]}: impl {r["res"]} != model {model}', c)
            if r.get('phantom'):
                ctx.oracle_fail('ctr-bounds', f'bound={c["bound"]} vals={c["vals"]} (counts of never-fed values read before the adds at positions {c.get("peeks", [])}): '
                                f'the counter tracks {r["phantom"]}, values that were never fed ({len(r["res"])} tracked entries)', c)
            elif spec != Atom('true'):
                ctx.oracle_fail('ctr-bounds', f'bound={c["bound"]} vals={c["vals"]} (counts of never-fed values read before the adds at positions {c.get("peeks", [])}): counter {r["res"]} over-counts / exceeds bound / inexact below bound', c)


def corpus():
    return [
        {'t': 'cms', 'depth': 2, 'width': 2, 'items': [0, 1], 'ops': [(0, 3), (1, 1), (0, 2)], 'npseed': 1, 'batch': False},
        {'t': 'cms', 'depth': 1, 'width': 1, 'items': ['a', 'b', ''], 'ops': [(0, 1), (1, 5), (2, 0)], 'npseed': 2, 'batch': False},
        {'t': 'mixed', 'depth': 4, 'width': 1024, 'items': ['a'], 'steps': [['add', 0, 1], ['query', 0], ['batch', [0, 0, 0, 0, 0], 1], ['query', 0]],
         'npseed': 0, 'kind': 'str'},
        {'t': 'ctr', 'bound': 2, 'vals': [5, 5, 7, 5, 9, 9]},
        {'t': 'ctr', 'bound': 0, 'vals': [1, 2]},
    ]


def gen(rng, thorough):
    u = rng.random()
    return gen_cms(rng, thorough) if u < 0.5 else (gen_mixed(rng, thorough) if u < 0.7 else gen_ctr(rng, thorough))


def run(ctx: Ctx):
    n = 6000 if ctx.thorough() else 500
    evaluate(ctx, corpus() + [gen(ctx.rng, ctx.thorough()) for _ in range(n)])


def search(ctx: Ctx):
    sub = Ctx(ctx.prop, ctx.tier)
    sub.rng.seed(f'search:{ctx.seed}')
    evaluate(sub, [gen(sub.rng, True) for _ in range(4000)], oracle_only=True)
    return sub.oracle_failures
