#!/usr/bin/env python3
"""confirm_benign.py <workdir> <id> [--no-tests]   (behaviour-preserving refactorings: the demo must exit 0 on BOTH trees)

derived from confirm_seeded.py:

Confirms a seeded change delivered by a sub-agent in <workdir>/out/{patch.diff,demo.py,meta.json} and, if everything
holds, stores it as /verif/seeded/<id>/.  Confirmation happens in a FRESH scratch worktree of /repo's HEAD
($TMPDIR/vconfirm/<id>, removed afterwards), never in /repo:
  1. patch.diff applies to the clean tree (git apply) and touches only outrank/ (not tests/),
  2. the demonstration exits 0 on the clean tree,
  3. with the patch: the package imports, the repository's test suite passes (same command as the baseline),
  4. with the patch: the demonstration exits 1.
Exit 0 = kept, 1 = rejected (reason printed)."""
import json
import os
import shutil
import subprocess
import sys
import tempfile

VERIF = os.path.dirname(os.path.dirname(os.path.abspath(__file__)))
REPO = '/repo'
PY = '/venv/bin/python'


def sh(cmd, **kw):
    return subprocess.run(cmd, capture_output=True, text=True, **kw)


def main():
    work, mid = sys.argv[1], sys.argv[2]
    run_tests = '--no-tests' not in sys.argv
    out = os.path.join(work, 'out')
    for f in ('patch.diff', 'demo.py', 'meta.json', 'reference.json'):
        if not os.path.exists(os.path.join(out, f)):
            print(f'REJECT {mid}: missing {f}')
            return 1
    meta = json.load(open(os.path.join(out, 'meta.json')))
    patch = os.path.join(out, 'patch.diff')
    touched = [l[6:].strip() for l in open(patch) if l.startswith('+++ b/')]
    if not touched or any(not t.startswith('outrank/') for t in touched):
        print(f'REJECT {mid}: patch touches {touched}')
        return 1
    wt = os.path.join(tempfile.gettempdir(), 'vconfirm', mid)
    shutil.rmtree(wt, ignore_errors=True)
    os.makedirs(os.path.dirname(wt), exist_ok=True)
    a = sh(['git', '-C', REPO, 'worktree', 'add', '--detach', wt, 'HEAD'])
    if a.returncode:
        print('worktree failed', a.stderr)
        return 1
    env = dict(os.environ, PYTHONPATH=wt, PYTHONHASHSEED=os.environ.get('PYTHONHASHSEED', '0'))
    env.pop('OUTRANK_REPO', None)
    res = {}
    try:
        demo = os.path.join(out, 'demo.py')
        r = sh([PY, demo], cwd=wt, env=env, timeout=900)
        res['demo_clean_exit'] = r.returncode
        if r.returncode != 0:
            print(f'REJECT {mid}: demo exits {r.returncode} on the clean tree\n{r.stdout[-800:]}{r.stderr[-800:]}')
            return 1
        a = sh(['git', '-C', wt, 'apply', patch])
        if a.returncode:
            print(f'REJECT {mid}: patch does not apply: {a.stderr[:300]}')
            return 1
        r = sh([PY, '-c', 'import outrank, outrank.core_ranking, outrank.task_ranking, outrank.task_summary, outrank.task_generators; print(outrank.__file__)'], cwd=wt, env=env)
        if r.returncode or not r.stdout.strip().startswith(wt):
            print(f'REJECT {mid}: import failed / wrong tree: {r.stdout} {r.stderr[-500:]}')
            return 1
        r = sh([PY, demo], cwd=wt, env=env, timeout=900)
        res['demo_patched_exit'] = r.returncode
        res['demo_patched_output'] = (r.stdout + r.stderr)[-1200:]
        if r.returncode != 0:
            print(f'REJECT {mid}: demo exits {r.returncode} with the refactoring (want 0: behaviour preserved)\n{r.stdout[-800:]}{r.stderr[-800:]}')
            return 1
        if run_tests:
            r = sh([PY, '-m', 'pytest', '-q', '-p', 'no:cacheprovider', '--timeout=900', 'tests/'], cwd=wt, env=env, timeout=3600)
            tail = (r.stdout.strip().splitlines() or [''])[-1]
            res['tests_with_patch'] = tail
            if r.returncode != 0:
                print(f'REJECT {mid}: test suite fails with the patch: {tail}\n{r.stdout[-1500:]}')
                return 1
        res['ran'] = ('fresh worktree of /repo HEAD: demo (clean) -> git apply -> import -> demo (patched) -> '
                      'pytest -q -p no:cacheprovider --timeout=900 tests/ (PYTHONPATH=<worktree>)')
    finally:
        sh(['git', '-C', REPO, 'worktree', 'remove', '--force', wt])
        shutil.rmtree(wt, ignore_errors=True)
        sh(['git', '-C', REPO, 'worktree', 'prune'])
    meta['confirmed_by_main'] = res
    dst = os.path.join(VERIF, 'seeded_benign', mid)
    os.makedirs(dst, exist_ok=True)
    shutil.copy(patch, os.path.join(dst, 'patch.diff'))
    shutil.copy(os.path.join(out, 'demo.py'), os.path.join(dst, 'demo.py'))
    shutil.copy(os.path.join(out, 'reference.json'), os.path.join(dst, 'reference.json'))
    json.dump(meta, open(os.path.join(dst, 'meta.json'), 'w'), indent=1)
    print(f'KEPT {mid}: {res.get("tests_with_patch", "tests skipped")}; demo clean 0 / refactored 0')
    return 0


if __name__ == '__main__':
    sys.exit(main())
