"""C08 – streaming equals reference batch semantics with median aggregation.
Tie: the real `outrank_task_conduct_ranking` / `estimate_importances_minibatches` on generated CSV files in a temp cwd,
synchronous stand-in pool, observed from outside (wrapped `compute_batch_ranking`, `checkpoint_importances_df`, captured
logger, checkpoint file read at every batch boundary, `pairwise_ranks.tsv`) vs the Lean model `Stream.run` / `aggregate` /
`diskTrace` / `finalTable`.  The per-batch triplets recorded from the implementation are what the model aggregates
(scoring is C05's business).  A few cases additionally run the real CLI in a fresh process.
Oracle: the property's clauses as Lean spec ops (`streamspec`, `prefixaggs`, `finalokrows`) on the implementation's outputs.
Additional family E2E (harness/corr_E2E.py, DESIGN §11.2): whole files through the real task vs the composed Lean model
`Pipeline.rankFile` (parser, loop, pairs, orientation, MI scoring at `--mi_stratified_sampling_ratio` 1.0 and at the float32
ratios 0.5 / 0.25 / 0.9, median, sort); its theorems (Props/Pipeline.lean) are built and audited with this check (`EXTRA_PROPS`)."""
from __future__ import annotations

import os

import random
from concurrent.futures import ThreadPoolExecutor
from fractions import Fraction

import corr_E2E
import stream_common as sc
from vp_common import Atom, Ctx, line, run_driver

PROP = 'C08'
EXTRA_PROPS = ['Pipeline']          # Props/Pipeline.lean: built, audited and counted with C08's obligations
GEN_DEPENDENT = True                # the pipeline model scores with the dispatch table regenerated from the source (Gen/Dispatch.lean)


def translate(ctx):
    """the end-to-end model uses C05's regenerated dispatch table: re-read it from the tree under test"""
    import c05_translate
    from vp_common import LEAN_DIR, REPO
    problems, _ = c05_translate.translate_repo(REPO, os.path.join(LEAN_DIR, 'OutrankModel', 'Gen', 'Dispatch.lean'))
    ctx.tie_broken.extend(problems)
RULE = ('CSV files generated from one PRNG: 3-4 columns (label anywhere, a unique row-id column), number of selected valid rows '
        'k*B + {-1,0,1,1023,1024,1025,1026} for B in [1030,2600] (tail rule can fire) and B in {1,2,5,50} (many batches), '
        'subsampling in {1,2,3,7} with unselected filler lines (valid or malformed), malformed selected rows (too few / too many '
        'fields, empty lines) at rates 0-40% and forced at the first/last/boundary positions, with and without trailing newline; '
        'both ranking modes; a few Constant-heuristic files; direct get_grouped_df cases with ties, negative and even/odd groups, and with NaN scores (accepted: NaN-skipping or NaN-propagating median per pair). '
        'Non-trivial = at least two processed batches or a fired tail rule, with at least one malformed selected row; '
        'distinct = distinct (B, sub, validity pattern). ' + corr_E2E.RULE_E2E)
ASSUMPTIONS = ['lines are abstract in the model: per line only "csv field count == header field count" (computed by the harness as '
               'comma count + 1, 0 for an empty line; generated fields of VALID rows contain no quotes; malformed rows may carry an unclosed quote, which leaves their field count below the width of the header under the per-line reader) and an identifier; the parser itself is C16',
               'scores are the per-batch triplets recorded from the implementation (scoring is C05); every finite float is an exact rational; '
               'for an even group pandas returns fl((a+b)/2), which equals the correctly rounded exact mean (no over/underflow in the generated range): compared bit for bit',
               'pandas groupby sorts its keys (compared in order); sort_values is not stable: tie rows of pairwise_ranks.tsv are compared as multisets (Lean finalOkB)',
               'minibatch_size >= 1 and subsampling >= 1 (0 raises ZeroDivisionError / loops in the code; excluded by the property)',
               "heuristic 'Constant' writes no in-loop checkpoint by design (modelled, not flagged)",
               'get_grouped_df / the model skip no NaN: cases whose recorded scores are not finite are counted and skipped'] + corr_E2E.ASSUMPTIONS_E2E
SMALL_B = [1, 2, 5, 50]
DELTAS = [-1, 0, 1, 1023, 1024, 1025, 1026]


# ---------------------------------------------------------------------------------------------
# generation

def gen_case(rng: random.Random, thorough=False, cli=False):
    big = rng.random() < 0.62 or cli
    if big:
        B = rng.choice([1030, 1031, 1100, 1500, 2047, 2048, 2049, 2600, rng.randint(1030, 2600)])
        k = rng.choice([0, 1, 1, 2] if not cli else [1])
        delta = rng.choice(DELTAS)
        sub = rng.choice([1, 1, 2, 3, 7]) if not cli else rng.choice([1, 2])
    else:
        B = rng.choice(SMALL_B)
        k = rng.choice([0, 1, 2, 3, 7, 20, 40]) if B > 1 else rng.choice([0, 1, 2, 3, 17, 40])
        delta = rng.choice([-1, 0, 1, 0, 1, 3])
        sub = rng.choice([1, 2, 3, 7])
    V = max(0, k * B + delta)
    return {'gseed': rng.getrandbits(48), 'B': B, 'sub': sub, 'V': V, 'ncol': rng.choice([3, 4]),
            'label_pos': rng.choice([0, 1, 2]), 'p_bad': rng.choice([0.0, 0.0, 0.01, 0.1, 0.4]),
            'force_bad': rng.choice(['none', 'first', 'last', 'boundary', 'all3']),
            'trail_nl': rng.random() < 0.8, 'target_only': rng.random() < 0.6,
            'heuristic': 'Constant' if rng.random() < 0.06 and not cli else 'MI-numba-randomized',
            'card_names': rng.random() < 0.15, 'take': None,
            # per-batch combination cap: mostly not binding; small caps make different pairs be scored in different batches, so a
            # pair can appear for the first time in a LATER batch (checkpoints / medians must still cover every batch so far)
            'cap': rng.choice([2048, 2048, 2048, 1, 2, 3]) if not cli else 2048,
            'ctrl': rng.random() < 0.3, 'quote_rows': rng.random() < 0.3, 'coldesc': 'tuple' if (rng.random() < 0.25 and not cli) else 'list'}


def build(case):
    """(header columns, data lines) – deterministic in the case"""
    if 'lines' in case:
        return case['cols'], list(case['lines'])
    r = random.Random(case['gseed'])
    ncol = case['ncol']
    feats = [f'f{i}' for i in range(ncol - 2)] + ['rid']
    cols = feats[:]
    cols.insert(min(case['label_pos'], len(cols)), 'label')
    li = cols.index('label')
    B, sub, V = case['B'], case['sub'], case['V']

    def valid(i):
        y = r.randrange(2)
        vals = []
        for c in cols:
            if c == 'label':
                vals.append(str(y))
            elif c == 'rid':
                vals.append(str(i))
            else:
                v = str((y * r.randrange(3) + r.randrange(4)) % 5)
                if case.get('ctrl') and r.random() < 0.04:
                    # separators that str.splitlines() honours but text-mode file iteration and the csv module do not:
                    # a data row containing one is still ONE row at ONE file position
                    v += r.choice(['\x0b', '\x0c', '\x1c', '\x1d', '\x1e'])
                vals.append(v)
        return ','.join(vals)

    def bad(i):
        kind = r.choice(['few', 'many', 'empty', 'one', 'quote'] if case.get('quote_rows') else ['few', 'many', 'empty', 'one'])
        if kind == 'quote':
            # a malformed row with an UNCLOSED double quote: it is one row of too few fields (comma count + 1 < header width for the
            # 3- and 4-column files here) and ends at its line end – the rows after it are rows of their own
            return r.choice(['7,"3', '"', 'x,"'])
        if kind == 'few':
            v = valid(i).split(',')
            del v[r.randrange(len(v))]
            return ','.join(v)
        if kind == 'many':
            return valid(i) + ',' + r.choice(['x', '', '7'])
        if kind == 'empty':
            return ''
        return 'zz'

    # the selected lines: V valid ones with malformed ones sprinkled in
    selected_kinds = []
    nv = 0
    while nv < V:
        if r.random() < case['p_bad']:
            selected_kinds.append(False)
        else:
            selected_kinds.append(True)
            nv += 1
    fb = case['force_bad']
    if fb in ('first', 'all3'):
        selected_kinds.insert(0, False)
    if fb in ('last', 'all3'):
        selected_kinds.append(False)
    if fb in ('boundary', 'all3') and V >= B:
        # a malformed selected line right before the row that completes the first batch
        seen = 0
        for j, okk in enumerate(selected_kinds):
            if okk:
                seen += 1
                if seen == B:
                    selected_kinds.insert(j, False)
                    break
    lines = []
    i = 0
    for okk in selected_kinds:
        for _ in range(sub - 1):
            lines.append(valid(i) if r.random() < 0.8 else bad(i))
            i += 1
        lines.append(valid(i) if okk else bad(i))
        i += 1
    for _ in range(r.randrange(sub)):
        lines.append(valid(i) if r.random() < 0.8 else bad(i))
        i += 1
    if case.get('take') is not None:
        lines = lines[:case['take']]
    return cols, lines


def file_text(case, cols, lines):
    t = ','.join(cols) + '\n' + '\n'.join(lines)
    if lines and (case.get('trail_nl', True) or lines[-1] == ''):
        t += '\n'       # a final empty line is only a line if terminated
    return t


def nfields(s):
    return 0 if s == '' else s.count(',') + 1


def argkw(case):
    return dict(_coldesc=case.get('coldesc', 'list'), minibatch_size=case['B'], subsampling=case['sub'], heuristic=case.get('heuristic', 'MI-numba-randomized'),
                target_ranking_only='True' if case.get('target_only', True) else 'False',
                include_cardinality_in_feature_names='True' if case.get('card_names') else 'False',
                combination_number_upper_bound=case.get('cap', 2048))


# ---------------------------------------------------------------------------------------------
# evaluation

def short(case):
    return {k: v for k, v in case.items() if k not in ('lines',)} if 'lines' not in case or len(case['lines']) > 40 else case


def finite(x):
    return x == x and x not in (float('inf'), float('-inf'))


def observe(case):
    cols, lines = build(case)
    rec = sc.run_inprocess(file_text(case, cols, lines), **argkw(case))
    return cols, lines, rec


def requests_for(case, cols, lines, rec):
    """driver requests of one case; returns (lines, meta)"""
    ncol = len(cols)
    flags = [1 if nfields(s) == ncol else 0 for s in lines]
    rk, names = sc.name_ranks(*([b['triplets'] for b in rec.batches] + [rec.grouped, rec.final] + [d for d in rec.disk_after if d]))
    wb = [sc.wire_rows(b['triplets'], rk) for b in rec.batches]
    allrows = [r for b in wb for r in b]
    isconst = 1 if case.get('heuristic') == 'Constant' else 0
    ntail = 1 if (rec.batches and len(rec.batches[-1]['rows']) < case['B']) else 0
    req = [line(Atom(PROP), Atom('stream'), case['B'], case['sub'], flags),
           line(Atom(PROP), Atom('streamspec'), case['B'], case['sub'], flags),
           line(Atom(PROP), Atom('disk'), isconst, ntail, wb),
           line(Atom(PROP), Atom('prefixaggs'), wb),
           line(Atom(PROP), Atom('agg'), allrows),
           line(Atom(PROP), Atom('finalokrows'), allrows, sc.wire_rows(rec.final or [], rk))]
    return req, {'names': names, 'flags': flags}


def table_eq(model_reply, names, impl_rows, ordered):
    """model table (exact) vs implementation rows (floats)"""
    if impl_rows is None:
        return len(model_reply) == 0
    if len(model_reply) != len(impl_rows):
        return False
    m = [((names[a], names[b]), Fraction(s)) for a, b, s in model_reply]
    i = [((a, b), s) for a, b, s in impl_rows]
    if not ordered:
        m, i = sorted(m), sorted(i, key=lambda r: r[0])
    return all(km == ki and sc.same_float(sm, si) for (km, sm), (ki, si) in zip(m, i))


def judge(ctx: Ctx, case, cols, lines, rec, rep, meta, oracle_only=False):
    names = meta['names']
    m_stream, s_stream, m_disk, s_pref, m_agg, final_ok = rep
    sc_case = short(case)
    tag = f"B={case['B']} sub={case['sub']} lines={len(lines)}"
    if rec.error and case.get('heuristic') == 'Constant' and 'ranking_checkpoint_tmp.tsv' in rec.error:
        # with 'Constant' no checkpoint exists unless a tail batch was ranked; the final os.remove then raises, after all
        # outputs were written – outside the clauses of C08 (recorded in the evidence only)
        ctx.count('constant-heuristic-cleanup-raises')
    elif rec.error:
        ctx.oracle_fail('crash', f'{tag}: the ranking task raised {rec.error}', sc_case)
        return
    rid = cols.index('rid')
    try:
        impl_batches = [[int(r[rid]) for r in b['rows']] for b in rec.batches]
    except (ValueError, IndexError):
        ctx.oracle_fail('selection-batches', f'{tag}: a batch contains a row that is not a well-formed data row', sc_case)
        return
    impl_tail = bool(rec.batches) and len(rec.batches[-1]['rows']) < case['B']
    # --- clause 1: which rows, which batches, tail rule, invalid count
    for (who, st, fail) in (('model', m_stream, ctx.corr_fail), ('spec', s_stream, ctx.oracle_fail)):
        if who == 'model' and oracle_only:
            continue
        b, tail, inv, nl = st
        if b != impl_batches:
            k = next((j for j in range(max(len(b), len(impl_batches))) if j >= len(b) or j >= len(impl_batches) or b[j] != impl_batches[j]), 0)
            exp = b[k] if k < len(b) else None
            got = impl_batches[k] if k < len(impl_batches) else None
            fail('selection-batches', f'{tag}: batch #{k} handed to compute_batch_ranking has '
                 f'{"no rows (missing)" if got is None else str(len(got)) + " rows " + str(got[:4]) + "…"} but the {who} says '
                 f'{"no such batch" if exp is None else str(len(exp)) + " rows " + str(exp[:4]) + "…"} (batches impl {[len(x) for x in impl_batches]} vs {[len(x) for x in b]})', sc_case)
            if who == 'spec':
                return
        elif (tail == Atom('true')) != impl_tail and who == 'spec':
            fail('tail-rule', f'{tag}: tail batch used = {impl_tail}, specification says {tail}', sc_case)
            return
        if inv != rec.invalid:
            fail('invalid-count', f'{tag}: implementation reports {rec.invalid} invalid lines, the {who} counts {inv}', sc_case)
            if who == 'spec':
                return
    if any(not finite(t[2]) for b in rec.batches for t in b['triplets']):
        ctx.count('skipped-nonfinite-scores')
        return
    isconst = case.get('heuristic') == 'Constant'
    # --- clause 2: median aggregation (frame returned by estimate_importances_minibatches)
    if not table_eq(m_agg, names, rec.grouped, ordered=False):
        ctx.oracle_fail('median', f'{tag}: grouped table {rec.grouped and rec.grouped[:3]} is not the per-pair median of the '
                        f'{sum(len(b["triplets"]) for b in rec.batches)} recorded triplets (exact medians {[(names[a], names[b], float(s)) for a, b, s in m_agg[:3]]})', sc_case)
        return
    if not oracle_only and not table_eq(m_agg, names, rec.grouped, ordered=True):
        ctx.corr_fail('group-order', f'{tag}: key order of the grouped frame differs from the sorted order of the model', sc_case)
    # --- clause 3: checkpoint after every batch
    if len(rec.disk_after) != len(rec.batches):
        ctx.corr_fail('disk-observation', f'{tag}: {len(rec.disk_after)} disk observations for {len(rec.batches)} batches', sc_case)
    else:
        for k, d in enumerate(rec.disk_after):
            md = m_disk[k]
            ok_model = (d is None and md == Atom('none')) or (d is not None and md != Atom('none') and table_eq(md, names, d, ordered=True))
            if not oracle_only and not ok_model:
                ctx.corr_fail('checkpoint', f'{tag}: disk after batch #{k} differs from the model diskTrace', sc_case)
            if not isconst:
                sp = s_pref[k]
                ok = (d is None and len(sp) == 0) or (d is not None and table_eq(sp, names, d, ordered=False))
                if not ok:
                    ctx.oracle_fail('checkpoint', f'{tag}: after batch #{k} the checkpoint file holds {"nothing" if d is None else str(d[:3]) + "…"} '
                                    f'but the median aggregation of the first {k + 1} batches is {[(names[a], names[b], float(s)) for a, b, s in sp[:3]]}…', sc_case)
                    return
    # --- clause 4: pairwise_ranks.tsv
    if rec.batches and m_agg and rec.final is None:
        ctx.oracle_fail('final-missing', f'{tag}: {len(rec.batches)} batches were ranked but pairwise_ranks.tsv was not written', sc_case)
        return
    if rec.final is not None and final_ok != Atom('true'):
        ctx.oracle_fail('final-table', f'{tag}: pairwise_ranks.tsv is not the aggregate sorted by ascending score: {rec.final[:5]}…', sc_case)
        return


def account(ctx, case, lines, rec, meta):
    ctx.evaluations += 1
    B = case['B']
    ctx.count('B-small' if B <= 50 else 'B-large')
    ctx.count(f'sub={case["sub"]}')
    nb = len(rec.batches)
    ctx.count('batches=%s' % (nb if nb < 4 else '4+'))
    tail = bool(rec.batches) and len(rec.batches[-1]['rows']) < B
    ctx.count('tail-fired' if tail else 'tail-dropped-or-none')
    ctx.count('invalid>0' if rec.invalid else 'invalid=0')
    ctx.count('heuristic:' + case.get('heuristic', 'MI-numba-randomized'))
    ctx.count('mode:' + ('target' if case.get('target_only', True) else 'pairwise'))
    if (nb >= 2 or tail) and rec.invalid > 0:
        ctx.nontrivial.add((B, case['sub'], hash(tuple(meta['flags']))))
    ctx.sample({'B': B, 'sub': case['sub'], 'lines': len(lines), 'batch_sizes': [len(b['rows']) for b in rec.batches],
                'invalid': rec.invalid, 'grouped_head': (rec.grouped or [])[:2]})


def evaluate(ctx: Ctx, cases, oracle_only=False):
    obs = [observe(c) for c in cases]
    req, spans = [], []
    for c, (cols, lines, rec) in zip(cases, obs):
        r, meta = requests_for(c, cols, lines, rec)
        spans.append((len(req), meta))
        req += r
    rep = run_driver(req)
    for c, (cols, lines, rec), (a, meta) in zip(cases, obs, spans):
        n_or, n_co = len(ctx.oracle_failures), len(ctx.corr_failures)
        judge(ctx, c, cols, lines, rec, rep[a:a + 6], meta, oracle_only)
        account(ctx, c, lines, rec, meta)
        if not oracle_only:
            ctx.traces += 1
        if len(ctx.oracle_failures) > n_or and 'lines' not in c:
            f = ctx.oracle_failures[-1]
            if not any(g.key == f.key for g in ctx.oracle_failures[:-1]):      # only the first failure of a key is reported
                shrink(ctx, c, f)


def fails_same(case, key):
    sub = Ctx(PROP, 'quick')
    cols, lines, rec = observe(case)
    r, meta = requests_for(case, cols, lines, rec)
    judge(sub, case, cols, lines, rec, run_driver(r), meta, oracle_only=True)
    return next((f for f in sub.oracle_failures if f.key == key), None)


def shrink(ctx, case, failure):
    """shortest failing prefix of the file (bisection on the number of data lines; not monotone, best effort)"""
    _, lines = build(case)
    lo, hi = 0, len(lines)
    best = None
    for _ in range(14):
        if hi - lo <= 1:
            break
        mid = (lo + hi) // 2
        f = fails_same({**case, 'take': mid}, failure.key)
        if f is not None:
            hi, best = mid, f
        else:
            lo = mid
    if best is not None:
        failure.case, failure.desc = best.case, best.desc + ' [shrunk to the shortest failing prefix found]'


# ---------------------------------------------------------------------------------------------
# direct tie of get_grouped_df

def gen_triplets(rng):
    nk = rng.choice([1, 2, 3, 5])
    names = rng.sample(['a', 'b', 'label', 'f10', 'f2', 'B', 'a AND b', 'z'], min(nk + 1, 8))
    keys = [(rng.choice(names), rng.choice(names)) for _ in range(nk)]
    style = rng.choice(['unit', 'ints', 'ties', 'wide', 'neg'])
    rows = []
    for _ in range(rng.choice([1, 2, 3, 4, 5, 8, 21, 40])):
        k = rng.choice(keys)
        if style == 'unit':
            s = rng.random()
        elif style == 'ints':
            s = float(rng.randint(-5, 5))
        elif style == 'ties':
            s = rng.choice([0.0, 0.1, 0.25, -0.0, 0.3])
        elif style == 'wide':
            s = rng.choice([1e-30, 3.5e12, 1e30, 7.25, 2 ** -40, 1 / 3]) * rng.choice([1, -1, 3])
        else:
            s = -rng.random() * 10 ** rng.randint(-6, 3)
        rows.append((k[0], k[1], s))
    return rows


def grouped_direct(ctx: Ctx, n, oracle_only=False):
    from outrank import core_ranking as cr
    cases = [gen_triplets(ctx.rng) for _ in range(n)]
    cases += [[('a', 'b', 1.0), ('a', 'b', 2.0)], [('a', 'b', 0.1), ('a', 'b', 0.2), ('a', 'b', 0.7), ('b', 'a', 5.0)],
              [('x', 'y', 3.0)], [('a', 'b', 1.0), ('a', 'b', 1.0), ('a', 'b', 4.0), ('a', 'b', 9.0)]]
    req, metas = [], []
    for rows in cases:
        rk, names = sc.name_ranks(rows)
        metas.append(names)
        req.append(line(Atom(PROP), Atom('agg'), sc.wire_rows(rows, rk)))
    rep = run_driver(req)
    for rows, names, m in zip(cases, metas, rep):
        g = cr.get_grouped_df(list(rows))
        impl = [(str(a), str(b), float(s)) for a, b, s in zip(g['FeatureA'], g['FeatureB'], g['Score'])]
        ctx.evaluations += 1
        ctx.count('get_grouped_df-direct')
        if any(len([r for r in rows if r[:2] == k]) % 2 == 0 for k in {r[:2] for r in rows}) and len(rows) > 2:
            ctx.nontrivial.add(('agg', tuple(rows)))
        if not table_eq(m, names, impl, ordered=False):
            ctx.oracle_fail('median', f'get_grouped_df({rows[:6]}{"…" if len(rows) > 6 else ""}) = {impl[:4]} but the per-pair medians are '
                            f'{[(names[a], names[b], float(s)) for a, b, s in m[:4]]}', {'direct_rows': [list(r) for r in rows]})
        elif not oracle_only and not table_eq(m, names, impl, ordered=True):
            ctx.corr_fail('group-order', f'get_grouped_df key order {[(r[0], r[1]) for r in impl]} differs from the model', {'direct_rows': [list(r) for r in rows]})
        if not oracle_only:
            ctx.traces += 1


def grouped_direct_nan(ctx: Ctx, n, oracle_only=False, given=None):
    """per-batch scores that are NaN (a heuristic undefined on a batch, e.g. Pearson on a constant column).  "The median of its
    per-batch scores" has two conventional readings then: NaN scores are skipped (what pandas' groupby median and the unchanged
    code do; NaN only when every score of the pair is NaN) or NaN propagates.  The oracle accepts either, for every pair, and
    nothing else; the correspondence pins the code to the first reading (the model run on the non-NaN rows)."""
    import math

    from outrank import core_ranking as cr
    cases = given if given is not None else []
    for _ in range(0 if given is not None else n):
        rows = gen_triplets(ctx.rng)
        k = ctx.rng.choice([1, 1, 2, len(rows) // 2, len(rows)])
        for i in ctx.rng.sample(range(len(rows)), min(k, len(rows))):
            rows[i] = (rows[i][0], rows[i][1], float('nan'))
        cases.append(rows)
    if given is None:
        cases += [[('a', 'b', 0.3), ('a', 'b', float('nan')), ('a', 'b', 0.5)], [('a', 'b', float('nan'))],
                  [('a', 'b', 1.0), ('a', 'b', float('nan')), ('b', 'a', float('nan')), ('b', 'a', 2.0), ('b', 'a', 4.0), ('b', 'a', float('nan'))]]
    req, metas = [], []
    for rows in cases:
        rk, names = sc.name_ranks(rows)
        metas.append(names)
        # the Lean model of the NaN-skipping aggregation (Stream.aggregateSkip, Props/C08 §2b); `nan` travels as an atom
        req.append(line(Atom(PROP), Atom('aggskip'), [[rk[a], rk[b], Atom('nan') if math.isnan(x) else Fraction(x)] for a, b, x in rows]))
    rep = run_driver(req)
    rep = [[r for r in m if r[2] != Atom('nan')] for m in rep]          # pairs with a defined median
    for rows, names, m in zip(cases, metas, rep):
        stored = {'direct_rows_nan': [[a, b, None if math.isnan(x) else x] for a, b, x in rows]}
        g = cr.get_grouped_df(list(rows))
        impl = [(str(a), str(b), float(x)) for a, b, x in zip(g['FeatureA'], g['FeatureB'], g['Score'])]
        ctx.evaluations += 1
        ctx.count('get_grouped_df-direct-with-NaN-scores')
        skip = {(names[a], names[b]): Fraction(x) for a, b, x in m}
        keys = {(r[0], r[1]) for r in rows}
        show = f'get_grouped_df({[(a, b, x) for a, b, x in rows][:8]}{"…" if len(rows) > 8 else ""})'
        got_keys = [(a, b) for a, b, _ in impl]
        if len(set(got_keys)) != len(got_keys) or not set(skip) <= set(got_keys) <= keys:
            ctx.oracle_fail('median-nan', f'{show}: pairs in the result {sorted(got_keys)}; scored pairs {sorted(keys)}, of which {sorted(skip)} have a non-NaN score', stored)
            continue
        bad = None
        for a, b, x in impl:
            want = skip.get((a, b))
            if math.isnan(x) or (want is not None and sc.same_float(want, x)):
                continue
            bad = f'{show}: pair {(a, b)} gets {x!r}; the median of its non-NaN scores is {float(want) if want is not None else "undefined (all NaN)"}'
            break
        if bad:
            ctx.oracle_fail('median-nan', bad + ' (neither the NaN-skipping nor the NaN-propagating median)', stored)
            continue
        if not oracle_only:
            ctx.traces += 1
            for a, b, x in impl:
                want = skip.get((a, b))
                if (want is None) != math.isnan(x):
                    ctx.corr_fail('nan-convention', f'{show}: pair {(a, b)} gets {x!r}, the model (NaN scores skipped) '
                                  f'{float(want) if want is not None else "NaN"}', stored)
                    break


# ---------------------------------------------------------------------------------------------
# end to end through the CLI

def corpus():
    cols3 = ['label', 'f0', 'rid']
    mk = lambda rows: [f'{i % 2},{(i * 7) % 3},{i}' for i in range(rows)]
    return [
        {'cols': cols3, 'lines': mk(7), 'B': 2, 'sub': 1, 'target_only': True},
        {'cols': cols3, 'lines': mk(3) + ['1,2', '', '0,1,9,9'] + mk(8)[6:], 'B': 2, 'sub': 1, 'target_only': False},
        {'cols': cols3, 'lines': mk(20), 'B': 3, 'sub': 2, 'target_only': True, 'trail_nl': False},
        {'cols': cols3, 'lines': mk(1031), 'B': 1030, 'sub': 1, 'target_only': True},
        {'cols': cols3, 'lines': mk(1025), 'B': 2000, 'sub': 1, 'target_only': True},
        {'cols': cols3, 'lines': mk(1024), 'B': 2000, 'sub': 1, 'target_only': True},
        {'cols': cols3, 'lines': [], 'B': 5, 'sub': 1, 'target_only': True},
    ]


def run(ctx: Ctx):
    th = ctx.thorough()
    n = 2000 if th else 400
    cases = corpus() + [gen_case(ctx.rng, th) for _ in range(n)]
    ncli = 6 if th else 3
    clis = [gen_case(ctx.rng, th, cli=True) for _ in range(ncli)]
    for c in clis:
        c['V'] = c['B'] + ctx.rng.choice([0, 1025, 1024, 3])
        c['card_names'] = False
    ex = ThreadPoolExecutor(ncli)
    futs = [ex.submit(lambda c=c: sc.cli_run(file_text(c, *build(c)), hashseed='0', num_threads=2, **argkw(c))) for c in clis]
    try:
        evaluate(ctx, cases)
        grouped_direct(ctx, 2000 if th else 300)
        grouped_direct_nan(ctx, 600 if th else 120)
        # the CLI cases: in-process reference + fresh-process run
        obs = [observe(c) for c in clis]
        for c, (cols, lines, rec), f in zip(clis, obs, futs):
            rows, log = f.result()
            ctx.evaluations += 1
            ctx.count('cli-end-to-end')
            r, meta = requests_for(c, cols, lines, rec)
            rep = run_driver(r)
            judge(ctx, c, cols, lines, rec, rep, meta)
            rk, names = sc.name_ranks(*([b['triplets'] for b in rec.batches] + [rows]))
            allrows = [x for b in rec.batches for x in sc.wire_rows(b['triplets'], rk)]
            tag = f"CLI B={c['B']} sub={c['sub']} lines={len(lines)}"
            if rows is None:
                if allrows:
                    ctx.oracle_fail('cli-no-output', f'{tag}: no pairwise_ranks.tsv from the CLI run; log tail: {log[-400:]}', short(c))
                continue
            ok, = run_driver([line(Atom(PROP), Atom('finalokrows'), allrows, sc.wire_rows(rows, rk))])
            ctx.traces += 1
            if ok != Atom('true'):
                ctx.oracle_fail('cli-final-table', f'{tag}: pairwise_ranks.tsv of the fresh CLI run is not the median aggregate of the batches '
                                f'in ascending score order: {rows[:5]}…', short(c))
    finally:
        ex.shutdown(wait=True)
    # end-to-end family (drawn last, so that the cases above do not depend on it)
    corr_E2E.evaluate_e2e(ctx, corr_E2E.corpus_e2e() + corr_E2E.corpus_ratio() + corr_E2E.gen_cases(ctx.rng, th))


def search(ctx: Ctx):
    sub = Ctx(ctx.prop, ctx.tier)
    sub.rng.seed(f'search:{ctx.seed}')
    evaluate(sub, [gen_case(sub.rng, True) for _ in range(250)], oracle_only=True)
    grouped_direct(sub, 1500, oracle_only=True)
    grouped_direct_nan(sub, 600, oracle_only=True)
    corr_E2E.evaluate_e2e(sub, corr_E2E.corpus_e2e() + corr_E2E.corpus_ratio() + [corr_E2E.gen_e2e_case(sub.rng, True) for _ in range(60)]
                          + [corr_E2E.gen_e2e_case(sub.rng, True, ratio=corr_E2E.RATIOS[k % 3]) for k in range(30)], oracle_only=True)
    return sub.oracle_failures


def replay(ctx: Ctx, payload):
    case = payload['case']
    if isinstance(case, dict) and case.get('e2e'):
        corr_E2E.evaluate_e2e(ctx, [case], do_shrink=False)
        return
    if 'direct_rows_nan' in case:
        grouped_direct_nan(ctx, 0, given=[[(a, b, float('nan') if x is None else x) for a, b, x in case['direct_rows_nan']]])
        return
    if 'direct_rows' in case:
        from outrank import core_ranking as cr
        rows = [tuple(r) for r in case['direct_rows']]
        rk, names = sc.name_ranks(rows)
        m, = run_driver([line(Atom(PROP), Atom('agg'), sc.wire_rows(rows, rk))])
        g = cr.get_grouped_df(list(rows))
        impl = [(str(a), str(b), float(s)) for a, b, s in zip(g['FeatureA'], g['FeatureB'], g['Score'])]
        if not table_eq(m, names, impl, ordered=False):
            ctx.oracle_fail('median', f'get_grouped_df({rows[:6]}) = {impl[:4]}, medians {[(names[a], names[b], float(s)) for a, b, s in m[:4]]}', case)
        return
    evaluate(ctx, [case])
