"""Shared machinery of the /verif checks (DESIGN §2): wire codec, driver access, build + axiom audit,
evidence writer, known-findings matcher, verdict logic."""
from __future__ import annotations

import json
import os
import random
import re
import struct
import subprocess
import sys
import time
from fractions import Fraction

VERIF = os.path.dirname(os.path.dirname(os.path.abspath(__file__)))
LEAN_DIR = os.path.join(VERIF, 'lean')
DRIVER = os.path.join(LEAN_DIR, '.lake', 'build', 'bin', 'outrank_driver')
REPO = os.environ.get('OUTRANK_REPO', '/repo')
ALLOWED_AXIOMS = {'propext', 'Classical.choice', 'Quot.sound'}
FORBIDDEN = re.compile(r'\b(sorry|admit|native_decide|bv_decide|implemented_by|unsafe)\b|^\s*axiom\s|maxHeartbeats\s+0')


class Atom(str):
    """bare identifier on the wire"""
    def __repr__(self):
        return f'Atom({str.__repr__(self)})'


class FBits:
    """float sent as IEEE-754 bits"""
    def __init__(self, x: float):
        self.x = float(x)


def enc(v) -> str:
    if isinstance(v, Atom):
        return str(v)
    if isinstance(v, bool):
        return 'true' if v else 'false'
    if isinstance(v, FBits):
        return 'f:%016x' % struct.unpack('<Q', struct.pack('<d', v.x))[0]
    if isinstance(v, float):
        return 'f:%016x' % struct.unpack('<Q', struct.pack('<d', v))[0]
    if isinstance(v, int):
        return str(v)
    if isinstance(v, Fraction):
        return f'{v.numerator}/{v.denominator}'
    if isinstance(v, str):
        return 's:' + v.encode('utf-8').hex()
    if isinstance(v, (list, tuple)):
        return '[' + ','.join(enc(x) for x in v) + ']'
    if hasattr(v, 'item'):          # numpy scalar
        return enc(v.item())
    raise TypeError(f'cannot encode {type(v)}')


def line(*vals) -> str:
    return ' '.join(enc(v) for v in vals)


def dec(s: str):
    v, i = _dec(s, 0)
    if i != len(s):
        raise ValueError(f'trailing data in {s!r}')
    return v


def _dec(s, i):
    if s[i] == '[':
        i += 1
        out = []
        if s[i] == ']':
            return out, i + 1
        while True:
            v, i = _dec(s, i)
            out.append(v)
            if s[i] == ',':
                i += 1
            elif s[i] == ']':
                return out, i + 1
            else:
                raise ValueError(s)
    j = i
    while j < len(s) and s[j] not in ',]':
        j += 1
    tok = s[i:j]
    if tok.startswith('s:'):
        return bytes.fromhex(tok[2:]).decode('utf-8'), j
    if tok.startswith('f:') and len(tok) == 18:
        return struct.unpack('<d', struct.pack('<Q', int(tok[2:], 16)))[0], j
    if re.fullmatch(r'-?\d+', tok):
        return int(tok), j
    m = re.fullmatch(r'(-?\d+)/(\d+)', tok)
    if m:
        return Fraction(int(m.group(1)), int(m.group(2))), j
    return Atom(tok), j


def run_driver(lines: list[str], timeout=3600) -> list:
    """pipe request lines through the compiled Lean driver; returns decoded replies"""
    if not lines:
        return []
    data = ('\n'.join(lines) + '\n').encode('utf-8')
    def _stack():
        import resource
        try:
            resource.setrlimit(resource.RLIMIT_STACK, (resource.RLIM_INFINITY, resource.RLIM_INFINITY))
        except Exception:
            pass
    p = subprocess.run([DRIVER], input=data, stdout=subprocess.PIPE, stderr=subprocess.PIPE, timeout=timeout, preexec_fn=_stack)
    if p.returncode != 0:
        raise InfraError(f'driver exited {p.returncode}: {p.stderr.decode()[:500]}')
    out = p.stdout.decode('utf-8').split('\n')
    if out and out[-1] == '':
        out.pop()
    if len(out) != len(lines):
        raise InfraError(f'driver returned {len(out)} replies for {len(lines)} requests')
    res = []
    for o, l in zip(out, lines):
        v = dec(o)
        if isinstance(v, Atom) and v.startswith('bad-op'):
            raise DriverRejected(f'driver rejected request {l[:200]!r}: {v}')
        res.append(v)
    return res


_CALL_SIGNATURE = re.compile(r'TypeError\W.{0,120}(positional arguments? but|unexpected keyword argument|required (positional|keyword-only) argument|'
                             r'takes no arguments|got multiple values for argument|not enough arguments|too many arguments)')


class InfraError(Exception):
    pass


class DriverRejected(InfraError):
    """the model driver could not parse a request – built, as a rule, from what the implementation returned"""


# ---------------------------------------------------------------------------------------------
# build + audit

def sh(cmd, cwd=None, timeout=3600, env=None):
    p = subprocess.run(cmd, cwd=cwd, stdout=subprocess.PIPE, stderr=subprocess.STDOUT, timeout=timeout, env=env)
    return p.returncode, p.stdout.decode('utf-8', 'replace')


def lake_build(targets: list[str]):
    rc, out = sh(['lake', 'build'] + targets, cwd=LEAN_DIR)
    return rc == 0, out


def src_props_path(prop: str) -> str:
    """bridge theorems of the source tie (DESIGN §11.1), if the property has translated sites"""
    return os.path.join(LEAN_DIR, 'OutrankModel', 'Props', 'Src', f'{prop}.lean')


def theorem_names(prop: str, path: str | None = None) -> list[str]:
    """theorems declared in Props/<prop>.lean (obligations are counted from the file, not a constant)"""
    path = path or os.path.join(LEAN_DIR, 'OutrankModel', 'Props', f'{prop}.lean')
    names = []
    ns = []
    for ln in open(path, encoding='utf-8'):
        m = re.match(r'\s*namespace\s+(\S+)', ln)
        if m:
            ns.append(m.group(1))
            continue
        m = re.match(r'\s*end\s+(\S+)', ln)
        if m and ns and ns[-1] == m.group(1):
            ns.pop()
            continue
        m = re.match(r'\s*(?:@\[[^\]]*\]\s*)?(?:private\s+|protected\s+)?theorem\s+(\S+)', ln)
        if m:
            names.append('.'.join(ns + [m.group(1)]))
    return names


def grep_forbidden() -> list[str]:
    hits = []
    for root, _, files in os.walk(LEAN_DIR):
        if '.lake' in root or os.sep + 'wip' in root:
            continue
        for f in files:
            if not f.endswith('.lean'):
                continue
            p = os.path.join(root, f)
            in_block = 0
            for n, ln in enumerate(open(p, encoding='utf-8'), 1):
                # strip comments (block comments tracked coarsely, line comments exactly)
                code = ln
                if in_block:
                    if '-/' in code:
                        code = code.split('-/', 1)[1]
                        in_block = 0
                    else:
                        continue
                while '/-' in code:
                    pre, post = code.split('/-', 1)
                    if '-/' in post:
                        code = pre + post.split('-/', 1)[1]
                    else:
                        code = pre
                        in_block = 1
                        break
                code = code.split('--', 1)[0]
                if FORBIDDEN.search(code):
                    hits.append(f'{os.path.relpath(p, LEAN_DIR)}:{n}: {ln.strip()}')
    return hits


def audit(prop: str, with_src: bool = False, extra_props=()):
    """#print axioms for every theorem of Props/<prop>.lean (and Props/Src/<prop>.lean, and the extra Props files a check
    attaches to the property, e.g. Props/Pipeline.lean to C08); returns (per-theorem dict, raw output)"""
    names = theorem_names(prop)
    if with_src:
        names = names + theorem_names(prop, src_props_path(prop))
    for ep in extra_props:
        names = names + theorem_names(ep)
    d = os.path.join(LEAN_DIR, '.audit')
    os.makedirs(d, exist_ok=True)
    f = os.path.join(d, f'Audit_{prop}.lean')
    with open(f, 'w') as fh:
        fh.write(f'import OutrankModel.Props.{prop}\n')
        if with_src:
            fh.write(f'import OutrankModel.Props.Src.{prop}\n')
        for ep in extra_props:
            fh.write(f'import OutrankModel.Props.{ep}\n')
        for n in names:
            fh.write(f'#print axioms {n}\n')
    rc, out = sh(['lake', 'env', 'lean', f], cwd=LEAN_DIR)
    res = {}
    flat = out.replace('\n', ' ')
    for n in names:
        m = re.search(r"'" + re.escape(n) + r"' depends on axioms: \[([^\]]*)\]", flat)
        if m:
            res[n] = [a.strip() for a in m.group(1).split(',') if a.strip()]
        elif re.search(r"'" + re.escape(n) + r"' does not depend on any axioms", flat):
            res[n] = []
        else:
            res[n] = None
    return res, out, rc


# ---------------------------------------------------------------------------------------------
# known findings

def load_known(prop: str):
    path = os.path.join(VERIF, 'KNOWN_FINDINGS.txt')
    out = []
    if os.path.exists(path):
        for ln in open(path, encoding='utf-8'):
            m = re.match(r'finding:\s+property=(\S+)\s+key=(\S+)\s+(.*)', ln.strip())
            if m and m.group(1) == prop:
                out.append((m.group(2), m.group(3)))
    return out


# ---------------------------------------------------------------------------------------------
# the check context

class Failure:
    def __init__(self, key: str, desc: str, case, kind='oracle'):
        self.key, self.desc, self.case, self.kind = key, desc, case, kind


class Ctx:
    def __init__(self, prop: str, tier: str):
        self.prop, self.tier = prop, tier
        self.seed = int(os.environ.get('VERIF_SEED', '0') or 0)
        self.rng = random.Random(f'{prop}:{self.seed}:{tier}')
        self.t0 = time.time()
        self.evaluations = 0
        self.nontrivial = set()
        self.samples = []
        self.dist = {}
        self.oracle_failures: list[Failure] = []
        self.corr_failures: list[Failure] = []
        self.tie_broken: list[str] = []       # translator / obligation failures (names)
        self.notes = []
        self.traces = 0
        self.extra = {}

    def thorough(self):
        return self.tier == 'thorough'

    def count(self, key, n=1):
        self.dist[key] = self.dist.get(key, 0) + n

    def sample(self, x, limit=5):
        if len(self.samples) < limit:
            self.samples.append(x)

    def oracle_fail(self, key, desc, case):
        if _CALL_SIGNATURE.search(desc):
            # the harness called a function of the implementation with the arguments the UNCHANGED code takes and Python rejected
            # the call: names and signatures of internal functions are the implementation's business (a refactoring may change
            # them together with every caller) – the observation point is gone, which breaks the tie, and is not a failing input
            self.corr_failures.append(Failure('call-signature:' + key, desc + ' [call-signature mismatch: a tie matter, not a failing input]',
                                              case, 'correspondence'))
            return
        self.oracle_failures.append(Failure(key, desc, case, 'oracle'))

    def corr_fail(self, key, desc, case):
        self.corr_failures.append(Failure(key, desc, case, 'correspondence'))


def write_replay(prop, n, payload):
    d = os.path.join(VERIF, 'replays')
    os.makedirs(d, exist_ok=True)
    p = os.path.join(d, f'{prop}-{n}.json')
    with open(p, 'w') as fh:
        json.dump(payload, fh, indent=1, default=str)
    return os.path.relpath(p, VERIF)


def finish(ctx: Ctx, build_info: dict, assumptions: list[str], rule: str, search=None) -> int:
    """verdict logic of DESIGN §2.3; writes evidence; returns exit code"""
    prop = ctx.prop
    known = load_known(prop)
    lines = []
    violations = 0
    nrep = 0
    seen_keys = set()
    known_hit = set()

    def report(f: Failure, suffix=''):
        nonlocal violations, nrep
        for k, d in known:
            if k == f.key:
                if k not in known_hit:
                    known_hit.add(k)
                    lines.append(f'KNOWN-FINDING: property={prop} {d}')
                return
        if f.key in seen_keys:
            return
        seen_keys.add(f.key)
        nrep += 1
        path = write_replay(prop, nrep, {'property': prop, 'kind': f.kind, 'key': f.key, 'what': f.desc,
                                         'case': f.case, 'seed': ctx.seed, 'tier': ctx.tier})
        violations += 1
        lines.append(f'VIOLATION property={prop} replay={path}{suffix}')

    for f in ctx.oracle_failures:
        report(f)
    broken = list(ctx.tie_broken) + [f'correspondence:{f.key}' for f in ctx.corr_failures]
    if not ctx.oracle_failures and broken:
        found = []
        if search is not None:
            try:
                found = search() or []
            except InfraError:
                raise
        if found:
            for f in found:
                report(f)
        else:
            first = ctx.corr_failures[0] if ctx.corr_failures else None
            f = Failure('tie-broken:' + broken[0],
                        'model and code no longer agree / proof obligation no longer checks: ' + '; '.join(broken[:5]),
                        {'broken': broken, 'first_differing_case': first.case if first else None,
                         'source_tie': ctx.extra.get('source_tie', {}).get('problems'),
                         'bridge_failures': ctx.extra.get('source_tie', {}).get('bridge_failures')}, 'tie')
            if first:
                f.desc += ' | first differing case: ' + first.desc
            report(f, ' no-failing-input-found')

    thms = build_info.get('theorems', {})
    obligations = len(thms)
    discharged = sum(1 for n, ax in thms.items() if ax is not None and set(ax) <= ALLOWED_AXIOMS)
    ev = {
        'property_id': prop, 'tier': ctx.tier, 'seed': ctx.seed, 'level': 'proof',
        'coverage': {
            'obligations': obligations, 'discharged': discharged,
            'checker_cmd': build_info.get('checker_cmd', ''),
            'trusted_base': build_info.get('trusted_base', []),
            'theorems': {n: ax for n, ax in thms.items()},
            'evaluations': ctx.evaluations,
            'distinct_nontrivial': len(ctx.nontrivial),
            'rule': rule,
            'samples': ctx.samples,
            'traces_validated_against_impl': ctx.traces,
            'input_distribution': ctx.dist,
            'correspondence_failures': len(ctx.corr_failures),
            'oracle_failures': len(ctx.oracle_failures),
            'tie_broken': ctx.tie_broken,
            'known_findings_hit': sorted(known_hit),
            'notes': ctx.notes,
            **ctx.extra,
        },
        'assumptions': assumptions,
        'wall_s': round(time.time() - ctx.t0, 2),
        'violations': violations,
    }
    os.makedirs(os.path.join(VERIF, 'evidence'), exist_ok=True)
    with open(os.path.join(VERIF, 'evidence', f'{prop}.json'), 'w') as fh:
        json.dump(ev, fh, indent=1, default=str)
    for ln in lines:
        print(ln)
    print(f'[{prop}] tier={ctx.tier} seed={ctx.seed} evaluations={ctx.evaluations} nontrivial={len(ctx.nontrivial)} '
          f'theorems={discharged}/{obligations} corr_fail={len(ctx.corr_failures)} oracle_fail={len(ctx.oracle_failures)} '
          f'violations={violations} wall={ev["wall_s"]}s')
    sys.stdout.flush()
    return 1 if violations else 0


TRUSTED_BASE = [
    'Lean 4.33.0 kernel (leanchecker re-check in the thorough tier)',
    'axioms: subset of {propext, Classical.choice, Quot.sound}; no native_decide / bv_decide / sorry / own axioms (audited each run)',
    'Mathlib v4.33.0 definitions where a Props file imports them',
    'harness/*.py correspondence harness + Driver.lean parsing/printing',
]


def failing_theorems(prop: str, build_out: str) -> list[str]:
    """map `error:` positions of a failed build of Props/Src/<prop>.lean to the theorems they fall into"""
    path = src_props_path(prop)
    starts = []
    ns = []
    for i, ln in enumerate(open(path, encoding='utf-8'), 1):
        m = re.match(r'\s*namespace\s+(\S+)', ln)
        if m:
            ns.append(m.group(1))
        m = re.match(r'\s*(?:@\[[^\]]*\]\s*)?(?:private\s+|protected\s+)?(theorem|example)\s*(\S*)', ln)
        if m:
            starts.append((i, '.'.join(ns + [m.group(2)]) if m.group(1) == 'theorem' else f'example@{i}'))
    out = []
    # `lean` prints `file:line:col: error: …`, `lake build` (Lake 5) prints `error: file:line:col: …`
    for m in re.finditer(r'(?:error: \S*Props/Src/' + prop + r'\.lean:(\d+):\d+:|Props/Src/' + prop + r'\.lean:(\d+):\d+: error)', build_out):
        line = int(m.group(1) or m.group(2))
        name = None
        for st, n in starts:
            if st <= line:
                name = n
        if name and name not in out:
            out.append(name)
    return out or ['(build of Props/Src/%s.lean failed)' % prop]


def own_modules(root: str) -> list[str]:
    """the project's own modules (OutrankModel.*) transitively imported by `root` – what leanchecker re-checks"""
    seen, todo = [], [root]
    while todo:
        m = todo.pop()
        if m in seen:
            continue
        path = os.path.join(LEAN_DIR, *m.split('.')) + '.lean'
        if not os.path.exists(path):
            continue
        seen.append(m)
        for ln in open(path, encoding='utf-8'):
            mm = re.match(r'\s*import\s+(OutrankModel\.\S+)', ln)
            if mm:
                todo.append(mm.group(1))
    return sorted(seen)


def prepare(prop: str, tier: str, extra_targets=(), extra_props=()):
    """steps 2+3: build the property's theorems and the driver; audit axioms. Returns build_info.
    `extra_props`: further Props files whose theorems count as obligations of this check (built + audited with it).
    Raises InfraError when the failure is /verif's own (not attributable to a regenerated Gen file)."""
    targets = [f'OutrankModel.Props.{prop}', 'outrank_driver'] + list(extra_targets) + [f'OutrankModel.Props.{ep}' for ep in extra_props]
    ok, out = lake_build(targets)
    info = {'checker_cmd': 'cd /verif/lean && lake build ' + ' '.join(targets) + ' && lake env lean .audit/Audit_%s.lean  (#print axioms)' % prop,
            'trusted_base': list(TRUSTED_BASE), 'build_ok': ok, 'build_out': out[-3000:]}
    if not ok:
        info['theorems'] = {}
        return info
    hits = grep_forbidden()
    if hits:
        raise InfraError('forbidden construct in lean/: ' + '; '.join(hits[:5]))
    # source tie: the bridge theorems are checked against the REGENERATED Gen/Src/<prop>.lean; a failure is an obligation
    # failure (tie broken), not an infrastructure error
    has_src = os.path.exists(src_props_path(prop))
    info['src_ok'] = True
    if has_src:
        ok2, out2 = lake_build([f'OutrankModel.Props.Src.{prop}'])
        info['checker_cmd'] = info['checker_cmd'].replace(' outrank_driver', f' OutrankModel.Props.Src.{prop} outrank_driver', 1)
        if not ok2:
            info['src_ok'] = False
            info['src_build_out'] = out2[-4000:]
            info['src_failed'] = failing_theorems(prop, out2)
    thms, raw, rc = audit(prop, with_src=has_src and info['src_ok'], extra_props=extra_props)
    if has_src and not info['src_ok']:
        for n in theorem_names(prop, src_props_path(prop)):
            thms[n] = None                       # obligation not discharged
    info['theorems'] = thms
    bad = [n for n, ax in thms.items() if (ax is None and (info['src_ok'] or not n.startswith('Src.'))) or (ax is not None and not set(ax) <= ALLOWED_AXIOMS)]
    if bad:
        raise InfraError(f'axiom audit failed for {bad}: {raw[-1500:]}')
    if tier == 'thorough':
        mods = own_modules(f'OutrankModel.Props.{prop}')
        if has_src and info['src_ok']:
            mods = sorted(set(mods) | set(own_modules(f'OutrankModel.Props.Src.{prop}')))
        for ep in extra_props:
            mods = sorted(set(mods) | set(own_modules(f'OutrankModel.Props.{ep}')))
        info['leanchecker_modules'] = mods
        rc, o = sh(['lake', 'env', 'leanchecker'] + mods, cwd=LEAN_DIR, timeout=3600)
        info['leanchecker'] = 'ok' if rc == 0 else ('failed: ' + o[-500:])
        if rc != 0:
            raise InfraError('leanchecker failed: ' + o[-800:])
    return info
