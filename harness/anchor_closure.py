#!/usr/bin/env python3
"""Anchor-closure audit (development aid, DESIGN §11.5): for every property, which functions of outrank/ are reachable
(static, name-based call graph) from the property's anchored functions but are not anchored for it?

  python3 harness/anchor_closure.py [--repo /repo] [Cxx ...]

The call graph is an over-approximation by bare name: a call `f(...)`, `obj.f(...)` or a reference `f` passed as a value
links to every function / method of outrank/ called `f`.  Output: per property the unanchored reachable functions."""
import ast, os, sys, collections
sys.path.insert(0, os.path.dirname(os.path.abspath(__file__)))
import src_sites

def functions(repo):
    fs = {}
    for dp, dn, fn in os.walk(os.path.join(repo, 'outrank')):
        for f in fn:
            if not f.endswith('.py'): continue
            p = os.path.join(dp, f); rel = os.path.relpath(p, repo)
            try: tree = ast.parse(open(p, encoding='utf-8').read())
            except SyntaxError: continue
            def walk(node, prefix):
                for ch in ast.iter_child_nodes(node):
                    if isinstance(ch, (ast.FunctionDef, ast.AsyncFunctionDef)):
                        q = prefix + ch.name
                        fs[(rel, q)] = ch
                        walk(ch, q + '.')
                    elif isinstance(ch, ast.ClassDef):
                        walk(ch, prefix + ch.name + '.')
            walk(tree, '')
            fs[(rel, '<module>')] = ast.Module(body=[n for n in tree.body if not isinstance(n, (ast.FunctionDef, ast.AsyncFunctionDef, ast.ClassDef))], type_ignores=[])
    return fs

def names_used(node):
    out = set()
    for n in ast.walk(node):
        if isinstance(n, ast.Name): out.add(n.id)
        elif isinstance(n, ast.Attribute): out.add(n.attr)
    return out

def main():
    repo = '/repo'; args = sys.argv[1:]
    if args[:1] == ['--repo']: repo = args[1]; args = args[2:]
    fs = functions(repo)
    byname = collections.defaultdict(list)
    for (rel, q) in fs:
        if q != '<module>': byname[q.split('.')[-1]].append((rel, q))
    uses = {k: names_used(v) for k, v in fs.items()}
    for prop in (args or sorted(src_sites.ANCHORS)):
        anch = {(a['file'], a['qual']) for a in src_sites.ANCHORS[prop]}
        # nested functions of an anchored function are part of it
        def covered(k): return any(k[0] == a[0] and (k[1] == a[1] or k[1].startswith(a[1] + '.')) for a in anch)
        seen = set(a for a in anch if a in fs); todo = list(seen)
        while todo:
            k = todo.pop()
            for nm in uses.get(k, ()):
                for t in byname.get(nm, ()):
                    if t not in seen: seen.add(t); todo.append(t)
        miss = sorted(k for k in seen if not covered(k) and not k[1].split('.')[-1].startswith('__'))
        print(f'{prop}: anchored {len(anch)}, reachable {len(seen)}, unanchored reachable {len(miss)}')
        for k in miss: print('     ', k[0], k[1])
main()
