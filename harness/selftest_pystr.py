#!/venv/bin/python
"""selftest_pystr.py [N] [seed] – differential test of the translator's string primitives (`Py.*`, lean/OutrankModel/Model/PyInt.lean)
against CPython's own `str` methods, and of the translator (`ToLean`) on whole expressions: every case is evaluated by Python
(`eval`) and by Lean (`#eval` of the translated term); any difference is printed and the exit code is 1.

Primitives: strip / lstrip / rstrip (whitespace set: every Py_UNICODE_ISSPACE character and near misses), strip(chars) family,
split(sep) with separators of length 1..3 (overlaps, separators at the edges, empty string), split with an empty separator
(ValueError = none), join, replace, s[k:], xs[k:], xs[k] (IndexError = none), len, comprehensions with a condition."""
import ast
import os
import random
import subprocess
import sys

HERE = os.path.dirname(os.path.abspath(__file__))
sys.path.insert(0, HERE)
LEAN_DIR = os.path.join(os.path.dirname(HERE), 'lean')
import src_translate as st  # noqa: E402

ISSPACE = ['\t', '\n', '\x0b', '\x0c', '\r', '\x1c', '\x1d', '\x1e', '\x1f', ' ', '\x85', '\xa0', '\u1680'] + \
          [chr(c) for c in range(0x2000, 0x200b)] + ['\u2028', '\u2029', '\u202f', '\u205f', '\u3000']
NEAR = ['\x08', '\x0e', '\x1b', '\x21', '\x7f', '\x84', '\x86', '\xa1', '\u167f', '\u180e', '\u1fff', '\u200b', '\u2027', '\u202a',
        '\u2060', '\u3001', '\ufeff']
assert all(c.isspace() for c in ISSPACE) and not any(c.isspace() for c in NEAR)
ALPHA = ['a', 'b', 'a', 'b', ',', '|', ' ', '-', 'é', '😀', '_', '\r', '\n', '\t']


def rs(rng, lo=0, hi=9, alpha=ALPHA):
    return ''.join(rng.choice(alpha) for _ in range(rng.randint(lo, hi)))


def ws(rng):
    return ''.join(rng.choice(ISSPACE + NEAR) for _ in range(rng.randint(0, 3)))


def lean_of(v):
    """Lean term for a Python str / list of str (code points: no escaping questions)"""
    if isinstance(v, str):
        return '(S [' + ', '.join(str(ord(c)) for c in v) + '])'
    return '([' + ', '.join(lean_of(x) for x in v) + '] : List String)'


def enc(v):
    """the text the Lean side prints for a value"""
    if v is None:
        return 'none'
    if isinstance(v, bool):
        return 'true' if v else 'false'
    if isinstance(v, int):
        return str(v)
    if isinstance(v, str):
        return '[' + ', '.join(str(ord(c)) for c in v) + ']'
    return '[' + ', '.join(enc(x) for x in v) + ']'


def gen_cases(rng, n):
    """(python expression text, environment, parameter types)"""
    out = []
    for _ in range(n):
        k = rng.randrange(16)
        s = ws(rng) + rs(rng) + ws(rng)
        xs = [rs(rng, 0, 3) for _ in range(rng.randint(0, 4))]
        chars = ''.join(rng.choice(ALPHA + ISSPACE[:10]) for _ in range(rng.randint(0, 3)))
        sep = rs(rng, 1, rng.choice([1, 1, 2, 3]), ['a', 'b', ',', ' ', 'a'])
        t = rs(rng, 0, 12, ['a', 'b', ',', ' ', 'a'])
        if k == 0:
            out.append(('s.strip()', {'s': s}))
        elif k == 1:
            out.append((rng.choice(['s.lstrip()', 's.rstrip()']), {'s': s}))
        elif k == 2:
            m = rng.choice(['strip', 'lstrip', 'rstrip'])
            out.append((f's.{m}({chars!r})', {'s': rng.choice([s, chars + rs(rng) + chars[::-1]])}))
        elif k in (3, 4):
            out.append((f's.split({sep!r})', {'s': rng.choice([t, sep + t + sep, t + sep + sep + t, ''])}))
        elif k == 5:
            out.append(('s.split(d)', {'s': t, 'd': rng.choice([sep, sep, ''])}))
        elif k == 6:
            out.append(('d.join(xs)', {'d': rng.choice(['-', '', ', ', sep]), 'xs': xs}))
        elif k == 7:
            out.append((f's.replace({sep!r}, r)', {'s': rng.choice([t, sep * 3, t + sep + t]), 'r': rng.choice(['', '-', sep + sep, 'é'])}))
        elif k == 8:
            out.append((f's[{rng.randint(0, 4)}:]', {'s': rs(rng, 0, 5)}))
        elif k == 9:
            out.append((f'xs[{rng.randint(0, 3)}:]', {'xs': xs}))
        elif k == 10:
            out.append((f'xs[{rng.randint(0, 3)}]', {'xs': xs}))
        elif k == 11:
            out.append(("'-'.join((x for x in xs[1:] if x != ''))", {'xs': xs}))
        elif k == 12:
            out.append(("[x for x in s.split(' ') if x and x != 'a']", {'s': t}))
        elif k == 13:
            out.append(("s.strip().split('|')[0].split(' ')[0]", {'s': ws(rng) + rs(rng, 0, 12, ['a', 'b', '|', ' ', ' ']) + ws(rng)}))
        elif k == 14:
            out.append(('len(s.split(d)) == len(xs)', {'s': t, 'd': sep, 'xs': xs}))
        else:
            out.append((f"s.rstrip('\\r\\n').split(d)[{rng.randint(0, 2)}][1:]", {'s': rs(rng, 0, 10, ['a', '\t', '\t', ' ', 'b']) + rng.choice(['\n', '\r\n', '', ' \n']),
                                                                         'd': rng.choice(['\t', '\t', ''])}))
    return out


def main():
    n = int(sys.argv[1]) if len(sys.argv) > 1 else 1500
    rng = random.Random(int(sys.argv[2]) if len(sys.argv) > 2 else 0)
    cases = gen_cases(rng, n)
    lines, want = [], []
    for text, env in cases:
        params = {k: (k, 'Str' if isinstance(v, str) else 'StrList') for k, v in env.items()}
        t = st.ToLean(params)
        body, ty = t.tr(ast.parse(text, mode='eval').body)
        try:
            val = eval(text, {}, dict(env))     # noqa: S307 – generated expressions only
        except (IndexError, ValueError):
            val = None
        if not t.binds and val is None:
            print('translator declared a raising expression total:', text, env)
            return 1
        show = {'Str': 'O', 'StrList': 'OL', 'Bool': 'toString', 'Int': 'toString'}[ty]
        term = f'({show} {body})'
        if t.binds:
            term = '(match (' + ''.join(f'{o}.bind fun {v} => ' for v, o in t.binds) + f'some {term}) with | some r => r | none => "none")'
        for k, v in env.items():
            term = f'(let {k} := {lean_of(v)}; {term})'
        lines.append(term)
        want.append(enc(val))
    src = ('import OutrankModel.Model.PyInt\n'
           'def S (l : List Nat) : String := String.ofList (l.map Char.ofNat)\n'
           'def O (s : String) : String := toString (s.toList.map Char.toNat)\n'
           'def OL (l : List String) : String := "[" ++ ", ".intercalate (l.map O) ++ "]"\n')
    for i in range(0, len(lines), 100):
        src += f'def chunk{i} : List String := [\n  ' + ',\n  '.join(lines[i:i + 100]) + ']\n'
        src += f'#eval (chunk{i}.forM IO.println : IO Unit)\n'
    d = os.path.join(LEAN_DIR, '.audit')
    os.makedirs(d, exist_ok=True)
    f = os.path.join(d, 'SelftestPyStr.lean')
    open(f, 'w', encoding='utf-8').write(src)
    subprocess.run(['lake', 'build', 'OutrankModel.Model.PyInt'], cwd=LEAN_DIR, check=True, stdout=subprocess.DEVNULL)
    p = subprocess.run(['lake', 'env', 'lean', f], cwd=LEAN_DIR, stdout=subprocess.PIPE, stderr=subprocess.STDOUT, text=True)
    got = p.stdout.splitlines()
    if p.returncode != 0 or len(got) != len(want):
        print('lean failed / unexpected output:', p.stdout[:2000])
        return 2
    bad = 0
    for (text, env), g, w in zip(cases, got, want):
        if g != w:
            bad += 1
            if bad <= 10:
                print(f'DIFFERENT: {text} with {env!r}: python {w}, lean {g}')
    raising = sum(1 for w in want if w == 'none')
    print(f'selftest_pystr: {len(cases)} expressions ({raising} raising in Python), {bad} differences')
    return 1 if bad else 0


if __name__ == '__main__':
    sys.exit(main())
