"""C13 – data-quality statistics are exact and independent of the batch split.
Tie (in-process): the real compute_coverage / compute_cardinalities / compute_value_counts are called batch by batch on pandas
frames cut from ONE generated row sequence under several compositions into batches (module globals reset per run) and compared
with the Lean model (`C13 run`): per-batch coverage, annotation, sketch size + phase, bounded-counter content, histogram,
rare-value counter (in dict order) and the retired set.  Tie (end to end): real CLI runs (`--task ranking`,
`--task identify_rare_values`) on one CSV with different --minibatch_size; the `-(cardinality; coverage)` annotations of
pairwise_ranks.tsv, value_repetitions.json and rare_values.tsv are compared with the model.
Oracle: the Lean spec ops (`C13 spec`: covSpec, C14.spec / cardExact, histSpec, rareSpec – the right-hand sides of the theorems)
on the IMPLEMENTATION's outputs, plus split independence checked directly between implementation runs."""
from __future__ import annotations

import collections
import json
import os
import re
import shutil
import subprocess
import tempfile
import types
from fractions import Fraction

import xxhash

from vp_common import REPO, Atom, Ctx, InfraError, line, run_driver

PROP = 'C13'
RULE = ('[plus one rare-value report at scale per run: 250000-300000 random identifiers retired in batch 1, as many new ones in batch 2, oracle only] row sequences (1-3 string columns, 1..60 rows, thorough to 400) whose values are engineered to cross the rare threshold '
        'early and reappear later, missing symbols (\'\', {}, NA, duplicated / ordinary tokens as symbols), high/low cardinality, '
        'unicode; each under the single batch + 3-5 random / targeted compositions into batches; thresholds -1..10, counter bounds '
        '0..30000, the real sketch (p=19) and the real class with small (p,W) so that the sketch phase is reached. '
        'Non-trivial = (rows, threshold, composition) in which some (column, value) pair exceeds the threshold at the end of a '
        'non-final batch and occurs again in a later batch; distinct = distinct (rows, threshold, composition).')
ASSUMPTIONS = ['xxhash is an external: the real internal_hash digest and the sketch\'s second-level xxh32 digest of every value are shipped '
               'to the model; cases with colliding internal digests inside a column are skipped (the property\'s "up to 32-bit hash collisions")',
               'cells are Python str (what the CSV parsers produce); truthiness = non-empty',
               'per-batch coverage and the mean are floats: compared with the exact rational within 1e-9; annotation cases where '
               '10*mean is within 1e-9 of k+1/2 (round(.,1) tie) are skipped and counted',
               'sizes in the sketch phase (small (p,W) only) are compared with +-1 (numpy log vs Float.log under ceil, as in C14)',
               'the rare-value table and the retired set are compared as sets of rows in the oracle (dict order depends on the split and '
               'is not part of the property); the correspondence diff compares dict order as well',
               'every batch has at least one row (the streaming loop never builds an empty frame)',
               'the annotation and histogram expressions live inline in outrank_task_conduct_ranking: in-process they are mirrored by the '
               'harness, the real ones are exercised by the CLI runs']
THRESHOLDS = [0, 1, 10, 100, 1000, 10 ** 4, 10 ** 5]
SMALL_HLL = [(3, 4), (4, 8), (6, 32), (5, 1)]
MISS_CHOICES = [',{}', ',{}', ',{}', '{}', '', 'NA,,NA', 'x,{}', 'NA', '{},{}', 'a,b', ' ,{}']
NAME_POOLS = [['c0', 'c1', 'c2'], ['c0', 'c1', 'c2'], ['a b', 'é', 'c-(1; 2)'], ['label', 'f', 'f AND g']]


# ----------------------------------------------------------------------------------------------------------------------
# generator

def gen_column(rng, n, thr, fam):
    t = max(thr, 0)
    if fam == 'rare-cross':
        hot = [f'h{j}' for j in range(rng.randint(1, 3))]
        pool = [f'p{j}' for j in range(max(1, n // 3))]
        cut = max(1, int(n * rng.choice([0.3, 0.5, 0.7])))
        col = []
        for i in range(n):
            r = rng.random()
            if i < cut:
                col.append(rng.choice(hot) if r < 0.7 else rng.choice(pool))
            else:
                col.append(rng.choice(hot) if r < 0.15 else (f's{i}' if r < 0.4 else rng.choice(pool)))
        return col
    if fam == 'exact-threshold':            # values with exactly thr, thr+1, thr+2 occurrences spread over the rows
        col = []
        for j, k in enumerate([t, t + 1, t + 2, 1, t, t + 1]):
            col += [f'e{j}'] * k
        while len(col) < n:
            col.append(f'u{len(col)}')
        col = col[:n]
        rng.shuffle(col)
        return col
    if fam == 'missing-heavy':
        return [rng.choice(['', '', '{}', '{}', 'NA', 'x', 'a', 'b', 'val1', ' ']) for _ in range(n)]
    if fam == 'high-card':
        return [f'v{rng.randrange(2 * n + 1)}' for _ in range(n)]
    if fam == 'low-card':
        return [rng.choice(['a', 'b', 'c']) for _ in range(n)]
    return [rng.choice(['é', 'ž', '日本', 'a b', '0', 'False', 'nan', 'None', '', 'Ω', '{}', 'é']) for _ in range(n)]


def random_comp(rng, n, q):
    comp, cur = [], 0
    for i in range(n):
        cur += 1
        if i == n - 1 or rng.random() < q:
            comp.append(cur)
            cur = 0
    return comp


def targeted_comp(rows, thr, j=0):
    """cut right after the row at which a value of column j first exceeds the threshold"""
    seen = collections.Counter()
    cuts = []
    for i, r in enumerate(rows):
        seen[r[j]] += 1
        if seen[r[j]] == max(thr, 0) + 1 and i + 1 < len(rows):
            cuts.append(i + 1)
    return cuts_to_comp(cuts[:6], len(rows))


def comp_to_cuts(comp):
    cuts, s = [], 0
    for c in comp[:-1]:
        s += c
        cuts.append(s)
    return cuts


def cuts_to_comp(cuts, n):
    cuts = sorted({c for c in cuts if 0 < c < n})
    out, prev = [], 0
    for c in cuts + [n]:
        out.append(c - prev)
        prev = c
    return out


def gen_case(rng, thorough):
    ncols = rng.choice([1, 1, 2, 3])
    names = rng.choice(NAME_POOLS)[:ncols]
    n = rng.choice([1, 2, 3, 4, 6, 8, 12, 20, 35, 60] + ([150, 300] if thorough else []))
    thr = rng.choice([-1, 0, 1, 1, 2, 2, 3, 5, 10])
    fams = [rng.choice(['rare-cross', 'rare-cross', 'exact-threshold', 'missing-heavy', 'high-card', 'low-card', 'unicode']) for _ in range(ncols)]
    cols = [gen_column(rng, n, thr, f) for f in fams]
    rows = [[cols[j][i] for j in range(ncols)] for i in range(n)]
    comps = [[n]]
    for _ in range(3):
        comps.append(random_comp(rng, n, rng.choice([0.05, 0.15, 0.4, 0.8])))
    comps.append(targeted_comp(rows, thr, rng.randrange(ncols)))
    if rng.random() < 0.2:
        comps.append([1] * n)
    uniq = []
    for c in comps:
        if c not in uniq:
            uniq.append(c)
    return {'names': names, 'rows': rows, 'comps': uniq, 'miss': rng.choice(MISS_CHOICES), 'thr': thr,
            'bound': rng.choice([0, 1, 2, 3, 5, 10, 30000, 30000]), 'hll': (list(rng.choice(SMALL_HLL)) if rng.random() < 0.3 else None),
            'fams': fams, 'categorical': rng.random() < 0.15}


# ----------------------------------------------------------------------------------------------------------------------
# the implementation

class _PB:
    def set_description(self, *a, **k):
        pass


def hist_of(counter):
    """mirror of the value_repetitions.json expression in outrank_task_conduct_ranking"""
    import numpy as np
    ary = np.array(list(counter.values()))
    more_than = lambda n, a: len(np.where(a > n)[0])  # noqa: E731
    return [int(more_than(t, ary)) for t in THRESHOLDS]


def annot_of(covs):
    """mirror of the coverage part of the name annotation"""
    import numpy as np
    return int(round(np.mean(np.array(covs)), 1))


def run_impl(case, comp):
    """the real per-batch functions on the rows cut by `comp`; globals reset before, cleared after"""
    import warnings

    import pandas as pd
    from outrank import core_ranking as cr
    warnings.simplefilter('ignore', RuntimeWarning)      # np.log(m / 0) of a saturated small sketch (handled by the class)
    args = types.SimpleNamespace(missing_value_symbols=case['miss'], rare_value_count_upper_bound=case['thr'])
    cr.GLOBAL_CARDINALITY_STORAGE.clear()
    cr.GLOBAL_COUNTS_STORAGE.clear()
    cr.GLOBAL_RARE_VALUE_STORAGE = collections.Counter()
    cr.IGNORED_VALUES = set()
    real_cls = cr.HyperLogLog
    if case.get('hll'):
        p, W = case['hll']

        def small(err, _c=real_cls, p=p, W=W):
            s = _c(err)
            s.p, s.m, s.warmup_size, s.width = p, 1 << p, W, 64 - p
            return s
        cr.HyperLogLog = small
    names = case['names']
    covs = {c: [] for c in names}
    try:
        pos = 0
        for size in comp:
            df = pd.DataFrame(case['rows'][pos:pos + size], columns=names)
            pos += size
            if case.get('categorical'):
                # the batch as a pandas-categorical frame whose declared vocabulary has a value no row carries (a filtered frame)
                df = pd.DataFrame({c: pd.Categorical(df[c], categories=sorted(set(df[c])) + ['zz-declared-but-absent']) for c in names})
            cov = cr.compute_coverage(df, args)
            for c in names:
                covs[c].append(float(cov[c]))
            cr.compute_cardinalities(df, _PB(), case['bound'])
            cr.compute_value_counts(df, args)
        sk = cr.GLOBAL_CARDINALITY_STORAGE
        out = {
            'cov': covs,
            'annot': {c: annot_of(covs[c]) for c in names},
            'card': {c: int(len(sk[c])) for c in names},
            'flag': {c: bool(sk[c].hll_flag) for c in names},
            'pw': [int(sk[names[0]].p), int(sk[names[0]].warmup_size), int(sk[names[0]].m), int(sk[names[0]].width)],
            'ctr': {c: [[k, int(v)] for k, v in cr.GLOBAL_COUNTS_STORAGE[c].default_counter.items()] for c in names},
            'hist': {c: hist_of(cr.GLOBAL_COUNTS_STORAGE[c].default_counter) for c in names},
            'rare': [[k[0], k[1], int(v)] for k, v in cr.GLOBAL_RARE_VALUE_STORAGE.items()],
            'retired': sorted([list(k) for k in cr.IGNORED_VALUES]),
        }
    except Exception as e:  # noqa: BLE001
        out = {'raises': f'{type(e).__name__}: {e}'}
    finally:
        cr.HyperLogLog = real_cls
        cr.GLOBAL_CARDINALITY_STORAGE.clear()
        cr.GLOBAL_COUNTS_STORAGE.clear()
        cr.GLOBAL_RARE_VALUE_STORAGE = collections.Counter()
        cr.IGNORED_VALUES = set()
    return out


def digest_table(rows, p):
    from outrank.core_utils import internal_hash
    vals = sorted({v for r in rows for v in r})
    tab = []
    for v in vals:
        hx = internal_hash(v)
        tab.append([v, int(hx, 16), xxhash.xxh32(hx.encode('utf-8'), seed=p).intdigest()])
    return tab


def has_collision(case, tab):
    d1 = {v: a for v, a, _ in tab}
    for j in range(len(case['names'])):
        vs = {r[j] for r in case['rows'] if r[j]}
        if len({d1[v] for v in vs}) != len(vs):
            return True
    return False


def crossing(case, comp):
    """does some (column, value) exceed the threshold at the end of a non-final batch and occur again later?"""
    thr = case['thr']
    cnt = collections.Counter()
    pos = 0
    hot = set()
    for size in comp:
        batch = case['rows'][pos:pos + size]
        pos += size
        for r in batch:
            for j, v in enumerate(r):
                if (j, v) in hot:
                    return True
                cnt[(j, v)] += 1
        hot |= {k for k, c in cnt.items() if c > thr}
    return False


# ----------------------------------------------------------------------------------------------------------------------
# comparison

def near_tie(mean: Fraction):
    t = 10 * mean
    frac = t - (t.numerator // t.denominator)
    return abs(frac - Fraction(1, 2)) < Fraction(1, 10 ** 9)


def request(op, case, comp, p, W, tab):
    return line(Atom(PROP), Atom(op), case['names'], case['rows'], comp, case['miss'].split(','), case['thr'], case['bound'], p, W, tab)


def short(case, comp):
    rows = case['rows']
    return (f'cols={case["names"]} rows={rows[:10]}{"…" if len(rows) > 10 else ""} (n={len(rows)}) batches={comp[:12]}{"…" if len(comp) > 12 else ""} '
            f'missing={case["miss"]!r} thr={case["thr"]} bound={case["bound"]} hll={case.get("hll")}' +
            (' [batches handed over as pandas-categorical frames that declare one category no row carries]' if case.get('categorical') else ''))


def one(case, comp):
    return {k: v for k, v in case.items() if k not in ('comps', '_tab')} | {'comps': [comp]}


def check_comp(ctx, case, comp, impl, model, spec, p, W, oracle_only, tag=''):
    """model <-> impl diff and the spec oracle for one run; returns the split-independent observables (or None)"""
    names = case['names']
    sh = short(case, comp)
    if 'raises' in impl:
        ctx.oracle_fail(tag + 'raises', f'{sh}: the real code raised {impl["raises"]}', one(case, comp))
        return None
    mcols, mrare, mret = model if model is not None else (None, None, None)      # oracle-only runs have no model reply
    scols, srare = spec
    if not oracle_only:
        ctx.traces += 1
        for j, c in enumerate(names):
            covs, annot, (flag, card), hist, items = mcols[j]
            what = None
            if any(isinstance(x, Atom) for x in covs) or len(covs) != len(impl['cov'][c]) or \
                    any(abs(Fraction(a) - b) > Fraction(1, 10 ** 9) for a, b in zip(impl['cov'][c], covs)):
                what = f'per-batch coverage impl {impl["cov"][c][:8]} vs model {[str(x) for x in covs[:8]]}'
            elif (flag == Atom('true')) != impl['flag'][c] or abs(card - impl['card'][c]) > (1 if impl['flag'][c] else 0):
                what = f'sketch impl (sketch-phase={impl["flag"][c]}, len={impl["card"][c]}) vs model (sketch-phase={flag}, len={card})'
            elif [list(x) for x in items] != impl['ctr'][c]:
                what = f'bounded counter impl {impl["ctr"][c][:10]} vs model {items[:10]}'
            elif list(hist) != impl['hist'][c]:
                what = f'histogram impl {impl["hist"][c]} vs model {hist}'
            elif not near_tie(scols[j][1]) and annot != impl['annot'][c]:
                what = f'annotation impl {impl["annot"][c]} vs model {annot}'
            if what:
                ctx.corr_fail(tag + 'stats', f'{sh}: column {c!r}: {what}', one(case, comp))
                break
        if [list(x) for x in mrare] != impl['rare']:
            ctx.corr_fail(tag + 'rare', f'{sh}: rare counter impl {impl["rare"][:10]} vs model {mrare[:10]}', one(case, comp))
        elif sorted(list(x) for x in mret) != impl['retired']:
            ctx.corr_fail(tag + 'retired', f'{sh}: retired set impl {impl["retired"][:10]} vs model {sorted(mret)[:10]}', one(case, comp))
    # ---- oracle: the exact recomputation (Lean spec ops) on the implementation's outputs
    for j, c in enumerate(names):
        ecovs, mean, eannot, ssize, exact, distinct, ehist = scols[j]
        ic = impl['cov'][c]
        if len(ic) != len(ecovs) or any(abs(Fraction(a) - b) > Fraction(1, 10 ** 9) for a, b in zip(ic, ecovs)):
            k = next((i for i, (a, b) in enumerate(zip(ic, ecovs)) if abs(Fraction(a) - b) > Fraction(1, 10 ** 9)), 0)
            ctx.oracle_fail(tag + 'coverage', f'{sh}: column {c!r} batch #{k}: coverage {ic[k] if k < len(ic) else None} but exactly '
                            f'{float(ecovs[k]) if k < len(ecovs) else None} % of its cells are no missing symbol', one(case, comp))
            break
        if near_tie(mean):
            ctx.count('annot-tie-skipped')
        elif impl['annot'][c] != eannot:
            ctx.oracle_fail(tag + 'annotation', f'{sh}: column {c!r}: annotation {impl["annot"][c]} but int(round(mean,1)) of the exact '
                            f'per-batch percentages (mean {float(mean)}) is {eannot}', one(case, comp))
            break
        sketch = exact > W
        if abs(impl['card'][c] - ssize) > (1 if sketch else 0) or (not sketch and impl['card'][c] != exact):
            ctx.oracle_fail(tag + 'cardinality', f'{sh}: column {c!r}: cardinality {impl["card"][c]} but the consumed rows hold {exact} distinct '
                            f'non-empty values (warm-up capacity {W}; stateless sketch size {ssize})', one(case, comp))
            break
        ih = impl['hist'][c]
        if (distinct < case['bound'] and ih != list(ehist)) or any(a > b for a, b in zip(ih, ehist)) or len(ih) != len(ehist):
            ctx.oracle_fail(tag + 'histogram', f'{sh}: column {c!r}: repetition histogram {ih} but the exact one is {list(ehist)} '
                            f'({distinct} distinct values, bound {case["bound"]})', one(case, comp))
            break
    irare = sorted(impl['rare'])
    erare = sorted(list(x) for x in srare)
    if irare != erare:
        extra = [x for x in irare if x not in erare][:4]
        missing = [x for x in erare if x not in irare][:4]
        ctx.oracle_fail(tag + 'rare-exact', f'{sh}: rare-value table differs from the exact table of the consumed rows: reported but not exact '
                        f'{extra}; exact but not reported {missing}', one(case, comp))
    return {'card': impl['card'], 'hist': impl['hist'], 'rare': irare}


def split_stats(case, comp):
    r = run_impl(case, comp)
    if 'raises' in r:
        return None
    return {'card': r['card'], 'hist': r['hist'], 'rare': sorted(r['rare'])}


def shrink_split(case, comp, which, budget=400):
    """greedy shrink of a split-dependence witness (implementation only): drop columns, then rows, then cuts"""
    def bad(c, cp):
        nonlocal budget
        budget -= 1
        a, b = split_stats(c, cp), split_stats(c, [len(c['rows'])])
        return a is not None and b is not None and a[which] != b[which]
    cur = {k: v for k, v in case.items() if k not in ('comps', '_tab')}
    cuts = comp_to_cuts(comp)
    for j in reversed(range(len(cur['names']))):
        if len(cur['names']) > 1 and budget > 0:
            cand = dict(cur, names=cur['names'][:j] + cur['names'][j + 1:], rows=[r[:j] + r[j + 1:] for r in cur['rows']])
            if bad(cand, cuts_to_comp(cuts, len(cand['rows']))):
                cur = cand
    i = len(cur['rows']) - 1
    while i >= 0 and budget > 0 and len(cur['rows']) > 1:
        cand = dict(cur, rows=cur['rows'][:i] + cur['rows'][i + 1:])
        ccuts = [c - 1 if c > i else c for c in cuts]
        if bad(cand, cuts_to_comp(ccuts, len(cand['rows']))):
            cur, cuts = cand, sorted({c for c in ccuts if 0 < c < len(cand['rows'])})
        i -= 1
    for c in list(cuts):
        if budget > 0 and len(cuts) > 1:
            rest = [x for x in cuts if x != c]
            if bad(cur, cuts_to_comp(rest, len(cur['rows']))):
                cuts = rest
    return cur, cuts_to_comp(cuts, len(cur['rows']))


def evaluate(ctx: Ctx, cases, oracle_only=False):
    req, plan = [], []
    for case in cases:
        hll = case.get('hll')
        p, W = (hll if hll else (19, 2 ** 18))
        tab = digest_table(case['rows'], p)
        if has_collision(case, tab):
            ctx.count('skipped-digest-collision')
            continue
        for comp in case['comps']:
            if sum(comp) != len(case['rows']) or any(s <= 0 for s in comp):
                raise InfraError(f'bad composition {comp} for {len(case["rows"])} rows')
            plan.append((case, comp, p, W, len(req)))
            if not oracle_only:
                req.append(request('run', case, comp, p, W, tab))
            req.append(request('spec', case, comp, p, W, tab))
    rep = run_driver(req)
    by_case = {}
    for case, comp, p, W, at in plan:
        impl = run_impl(case, comp)
        if 'pw' in impl and impl['pw'] != [p, W, 1 << p, 64 - p]:
            if case.get('hll'):
                raise InfraError(f'sketch override did not take: {impl["pw"]}')
            ctx.oracle_fail('constants', f'sketch constants (p, warm-up, m, width) = {impl["pw"]}, expected (19, 262144, 524288, 45): '
                            'cardinality is no longer exact up to 2^18 distinct values', one(case, comp))
            continue
        model = None if oracle_only else rep[at]
        spec = rep[at + (0 if oracle_only else 1)]
        ctx.evaluations += 1
        ctx.count('batches:' + ('1' if len(comp) == 1 else '2-4' if len(comp) <= 4 else '5-16' if len(comp) <= 16 else '>16'))
        if crossing(case, comp):
            ctx.count('threshold-crossed-then-reappears')
            ctx.nontrivial.add(repr((case['rows'], case['thr'], comp)))
        obs = check_comp(ctx, case, comp, impl, model, spec, p, W, oracle_only)
        by_case.setdefault(id(case), (case, []))[1].append((comp, obs))
        if impl.get('flag') and any(impl['flag'].values()):
            ctx.count('sketch-phase-reached')
    for case, runs in by_case.values():
        ctx.count('rows:' + ('1-4' if len(case['rows']) <= 4 else '5-20' if len(case['rows']) <= 20 else '21-60' if len(case['rows']) <= 60 else '>60'))
        ctx.count('cols:%d' % len(case['names']))
        ctx.count('thr:%d' % case['thr'])
        ctx.count('bound:' + ('0' if case['bound'] == 0 else '1-10' if case['bound'] <= 10 else 'default'))
        ctx.count('hll:' + ('small' if case.get('hll') else 'real'))
        ctx.count('missing:' + repr(case['miss']))
        for f in case.get('fams', []):
            ctx.count('family:' + f)
        good = [(c, o) for c, o in runs if o is not None]
        if not good:
            continue
        base_comp, base = good[0]
        for comp, o in good[1:]:
            for which, what in (('rare', 'rare-value table'), ('card', 'cardinality'), ('hist', 'repetition histogram')):
                if o[which] != base[which]:
                    key = which + '-split'
                    if any(f.key == key for f in ctx.oracle_failures):
                        continue
                    sc, scomp = (case, comp)
                    if base_comp == [len(case['rows'])]:
                        sc, scomp = shrink_split(case, comp, which)
                    a, b = split_stats(sc, scomp), split_stats(sc, [len(sc['rows'])])
                    ctx.oracle_fail(key, f'{short(sc, scomp)}: the {what} depends on the batch split: {a[which] if a else None} with these batches, '
                                    f'{b[which] if b else None} when the same rows arrive as one batch', {**one(sc, scomp), 'comps': [[len(sc['rows'])], scomp]})
        ctx.sample({'names': case['names'], 'rows': case['rows'][:8], 'comps': case['comps'][:3], 'miss': case['miss'], 'thr': case['thr'],
                    'bound': case['bound'], 'hll': case.get('hll'), 'impl_rare_first_comp': base['rare'][:6], 'impl_card': base['card']})


# ----------------------------------------------------------------------------------------------------------------------
# end-to-end CLI runs

def cli_rows(rng, n):
    """5 columns f0,f1,f2,f3,label; values cross the rare threshold (3) in the first quarter and reappear in the last one"""
    q = n // 4
    rows = []
    for i in range(n):
        f0 = rng.choice(['a', 'b', '', '', '{}', 'c', 'NA'])
        if i < q:
            f1 = 'hot' if rng.random() < 0.3 else ('warm' if rng.random() < 0.1 else str(rng.randrange(300)))
        else:
            f1 = str(rng.randrange(300))
        f2 = rng.choice(['x', 'y', 'x', ''])
        rows.append([f0, f1, f2, rng.choice(['u', 'v', 'w']), str(rng.randrange(2))])
    for i in rng.sample(range(3 * q, n), 3):
        rows[i][1] = 'hot'                    # retired after batch 1 (size n/4), then <= threshold occurrences
    rows[rng.randrange(3 * q, n)][1] = 'warm'
    for k in range(8):
        rows[rng.randrange(n)][2] = f'rare{k}'
    # f3: a single missing cell in the whole file – the mean of the per-batch coverages is 99.95..: `int(round(mean, 1))` = 100,
    # a truncation of the unrounded mean would give 99
    rows[rng.randrange(n)][3] = ''
    for k, cnt in enumerate([3, 4, 4, 5]):    # exactly at / just above the threshold, spread over the quarters
        for t in range(cnt):
            rows[(t % 4) * q + rng.randrange(q)][2] = f'edge{k}'
    return rows


def cli_start(ctx: Ctx):
    n = 2048
    tmp = tempfile.mkdtemp(prefix='verif_c13_')
    rows = cli_rows(ctx.rng, n)
    names = ['f0', 'f1', 'f2', 'f3', 'label']
    os.makedirs(os.path.join(tmp, 'data'))
    with open(os.path.join(tmp, 'data', 'data.csv'), 'w', encoding='latin1') as fh:
        fh.write(','.join(names) + '\n')
        for r in rows:
            fh.write(','.join(r) + '\n')
    jobs = [dict(task='ranking', size=2048, miss=',{}', bound=30000), dict(task='ranking', size=1024, miss='NA,{}', bound=30000),
            dict(task='ranking', size=512, miss=',{}', bound=30000),
            dict(task='identify_rare_values', size=2048, miss=',{}', bound=30000), dict(task='identify_rare_values', size=1024, miss=',{}', bound=30000),
            dict(task='identify_rare_values', size=512, miss=',{}', bound=30000)]
    # batch-dependent constructed features (--explode_multivalue_features): token q occurs in the first half only, z in the last quarter
    # only, r in one row, so MULTIEX-mv-<token> exists in some batches and not in others; its annotated coverage is the mean of the
    # per-batch percentages of the batches that HAVE the column (estimate_importances_minibatches appends per existing column)
    names_mv = ['f0', 'f1', 'f2', 'f3', 'mv', 'label']
    rows_mv = []
    for i, r in enumerate(rows):
        toks = [t for t, pr in (('p', 0.5), ('s', 0.2)) if ctx.rng.random() < pr]
        if i < n // 2 and ctx.rng.random() < 0.3:
            toks.append('q')
        if i >= 3 * n // 4 and ctx.rng.random() < 0.25:
            toks.append('z')
        ctx.rng.shuffle(toks)
        rows_mv.append(r[:4] + ['-'.join(toks), r[4]])
    rows_mv[ctx.rng.randrange(n // 4, n // 2)][4] = 'r'
    os.makedirs(os.path.join(tmp, 'data3'))
    with open(os.path.join(tmp, 'data3', 'data.csv'), 'w', encoding='latin1') as fh:
        fh.write(','.join(names_mv) + '\n')
        for r in rows_mv:
            fh.write(','.join(r) + '\n')
    jobs += [dict(task='ranking', size=512, miss=',{}', bound=30000, data='data3', rows=rows_mv, names=names_mv, explode='mv'),
             dict(task='ranking', size=1024, miss=',{}', bound=30000, data='data3', rows=rows_mv, names=names_mv, explode='mv')]
    if ctx.thorough():
        extra = rows + cli_rows(ctx.rng, 2048)[:1100]          # a final partial batch of 1100 > 1024 rows is consumed as well
        os.makedirs(os.path.join(tmp, 'data2'))
        with open(os.path.join(tmp, 'data2', 'data.csv'), 'w', encoding='latin1') as fh:
            fh.write(','.join(names) + '\n')
            for r in extra:
                fh.write(','.join(r) + '\n')
        jobs += [dict(task='ranking', size=2048, miss=',{}', bound=100, data='data2', rows=extra, comp=[2048, 1100]),
                 dict(task='ranking', size=3148, miss=',{}', bound=100, data='data2', rows=extra, comp=[3148]),
                 dict(task='ranking', size=256, miss='{}', bound=100), dict(task='ranking', size=1024, miss=',{}', bound=100),
                 dict(task='identify_rare_values', size=256, miss=',{}', bound=30000),
                 dict(task='identify_rare_values', size=2048, miss=',{}', bound=30000, data='data2', rows=extra, comp=[2048, 1100]),
                 dict(task='identify_rare_values', size=3148, miss=',{}', bound=30000, data='data2', rows=extra, comp=[3148])]
    env = dict(os.environ)
    env['PYTHONPATH'] = REPO + os.pathsep + env.get('PYTHONPATH', '')
    for k, j in enumerate(jobs):
        j.setdefault('data', 'data')
        j.setdefault('rows', rows)
        j.setdefault('names', names)
        j.setdefault('comp', [j['size']] * (len(j['rows']) // j['size']))
        j['thr'] = 3
        cwd = os.path.join(tmp, f'run{k}')
        os.makedirs(cwd)
        j['cwd'] = cwd
        j['log'] = open(os.path.join(cwd, 'log.txt'), 'wb')
        cmd = ['/venv/bin/python', '-m', 'outrank', '--task', j['task'], '--data_path', os.path.join(tmp, j['data']), '--data_source', 'csv-raw',
               '--minibatch_size', str(j['size']), '--subsampling', '1', '--heuristic', 'MI-numba-randomized', '--output_folder', 'out',
               '--disable_tqdm', 'True', '--num_threads', '2', '--rare_value_count_upper_bound', str(j['thr']),
               '--missing_value_symbols=' + j['miss'], '--max_unique_hist_constraint', str(j['bound'])]
        if j.get('explode'):
            cmd += ['--explode_multivalue_features', j['explode']]
        j['proc'] = subprocess.Popen(cmd, cwd=cwd, env=env, stdout=j['log'], stderr=subprocess.STDOUT)
    return {'tmp': tmp, 'names': names, 'jobs': jobs}


ANNOT = re.compile(r'^(.*)-\((\d+); (-?\d+)\)$')


def cli_collect(ctx: Ctx, st):
    names = st['names']
    try:
        results = []
        for j in st['jobs']:
            try:
                rc = j['proc'].wait(timeout=900)
            except subprocess.TimeoutExpired:
                j['proc'].kill()
                raise InfraError('CLI run timed out')
            j['log'].close()
            desc = f'CLI --task {j["task"]} --minibatch_size {j["size"]} --missing_value_symbols {j["miss"]!r} on {len(j["rows"])} rows'
            out = os.path.join(j['cwd'], 'out')
            obs = {}
            try:
                if j['task'] == 'ranking':
                    ann = {}
                    with open(os.path.join(out, 'pairwise_ranks.tsv'), encoding='utf-8') as fh:
                        next(fh)
                        for ln in fh:
                            for cell in ln.rstrip('\n').split('\t')[:2]:
                                m = ANNOT.match(cell)
                                ann.setdefault(m.group(1), set()).add((int(m.group(2)), int(m.group(3))))
                    obs['annot'] = {k: sorted(v) for k, v in ann.items()}
                    obs['hist'] = {k: [v[str(t)] for t in THRESHOLDS] for k, v in json.load(open(os.path.join(out, 'value_repetitions.json'))).items()}
                else:
                    rr = []
                    with open(os.path.join(out, 'rare_values.tsv'), encoding='utf-8') as fh:
                        next(fh)
                        for ln in fh:
                            a, b, c = ln.rstrip('\n').split('\t')
                            rr.append([a, b, int(c)])
                    obs['rare'] = sorted(rr)
            except Exception as e:  # noqa: BLE001
                tail = open(os.path.join(j['cwd'], 'log.txt'), errors='replace').read()[-600:]
                ctx.oracle_fail('cli-run-failed', f'{desc}: exit code {rc}, outputs unreadable ({type(e).__name__}: {e}); log tail: {tail}',
                                {'cli': {k: j[k] for k in ('task', 'size', 'miss', 'bound', 'thr')}})
                continue
            results.append((j, desc, obs))
        # model / spec for every run
        req = []
        derived = []                                            # (result index, feature name, first request index)
        for j, desc, obs in results:
            case = {'names': j['names'], 'rows': j['rows'], 'miss': j['miss'], 'thr': j['thr'], 'bound': j['bound']}
            tab = digest_table(j['rows'], 19)
            req.append(request('run', case, j['comp'], 19, 2 ** 18, tab))
            req.append(request('spec', case, j['comp'], 19, 2 ** 18, tab))
        for k, (j, desc, obs) in enumerate(results):
            if not j.get('explode'):
                continue
            # the one-hot columns of every batch, derived independently of compute_expanded_multivalue_features (whose model is C11's
            # explodeMulti): a column exists in a batch iff its token occurs there; the C13 model is then asked about exactly the
            # batches that have the column
            miss = set(j['miss'].split(','))
            col = j['names'].index(j['explode'])
            per = {}
            at = 0
            for size in j['comp']:
                sets = [set(r[col].replace(',', '-').split('-')) for r in j['rows'][at:at + size]]
                at += size
                for tok in sorted(set().union(*sets) - miss):
                    per.setdefault(f'MULTIEX-{j["explode"]}-{tok}', []).append(['1' if tok in s_ else '' for s_ in sets])
            for name, cols in sorted(per.items()):
                drows = [[v] for c_ in cols for v in c_]
                case = {'names': [name], 'rows': drows, 'miss': j['miss'], 'thr': j['thr'], 'bound': j['bound']}
                tab = digest_table(drows, 19)
                derived.append((k, name, len(req), len(cols)))
                req.append(request('run', case, [len(c_) for c_ in cols], 19, 2 ** 18, tab))
                req.append(request('spec', case, [len(c_) for c_ in cols], 19, 2 ** 18, tab))
        rep = run_driver(req)
        summary = []
        for k, name, at, nb in derived:
            j, desc, obs = results[k]
            (mcols, _, _), (scols, _) = rep[at], rep[at + 1]
            covs, mannot, (flag, mcard), mhist, _ = mcols[0]
            ecovs, mean, eannot, ssize, exact, distinct, ehist = scols[0]
            ctx.evaluations += 1
            ctx.count('cli:derived-feature')
            ctx.count('cli:derived-in-all-batches' if nb == len(j['comp']) else 'cli:derived-in-some-batches')
            info = {k2: j[k2] for k2 in ('task', 'size', 'miss', 'bound', 'thr', 'explode')} | {'n_rows': len(j['rows']), 'feature': name, 'batches_with_column': nb}
            got = obs['annot'].get(name)
            if got is None:
                ctx.oracle_fail('cli-annotation', f'{desc} --explode_multivalue_features {j["explode"]}: constructed feature {name!r} is missing from pairwise_ranks.tsv', {'cli': info})
                continue
            if len(got) != 1:
                ctx.oracle_fail('cli-annotation', f'{desc}: feature {name!r} carries different annotations {got}', {'cli': info})
                continue
            card, cov = got[0]
            if card != mcard:
                ctx.corr_fail('cli-cardinality', f'{desc}: {name!r} annotated cardinality {card}, model {mcard}', {'cli': info})
            if card != exact:
                ctx.oracle_fail('cli-cardinality', f'{desc}: {name!r} annotated cardinality {card} but the column holds {exact} distinct non-empty values', {'cli': info})
            if near_tie(mean):
                ctx.count('annot-tie-skipped')
                continue
            if cov != mannot:
                ctx.corr_fail('cli-coverage', f'{desc}: {name!r} annotated coverage {cov}, model {mannot} (column present in {nb} of {len(j["comp"])} batches)', {'cli': info})
            if cov != eannot:
                ctx.oracle_fail('cli-annotation', f'{desc} --explode_multivalue_features {j["explode"]}: {name!r} annotated coverage {cov} but int(round(mean,1)) of the exact '
                                f'per-batch percentages of the {nb} batches (of {len(j["comp"])}) in which the column exists ({[float(x) for x in ecovs]}) is {eannot}', {'cli': info})
        for k, (j, desc, obs) in enumerate(results):
            names = j['names']
            (mcols, mrare, _), (scols, srare) = rep[2 * k], rep[2 * k + 1]
            ctx.evaluations += 1
            ctx.traces += 1
            ctx.count('cli:' + j['task'])
            info = {k2: j[k2] for k2 in ('task', 'size', 'miss', 'bound', 'thr')} | {'n_rows': len(j['rows'])} | ({'explode': j['explode']} if j.get('explode') else {})
            if j['task'] == 'ranking':
                for c_i, c in enumerate(names):
                    covs, mannot, (flag, mcard), mhist, _ = mcols[c_i]
                    ecovs, mean, eannot, ssize, exact, distinct, ehist = scols[c_i]
                    got = obs['annot'].get(c)
                    if got is None:
                        continue                                  # a column that takes part in no scored pair carries no annotation
                    if len(got) != 1:
                        ctx.oracle_fail('cli-annotation', f'{desc}: feature {c!r} carries different annotations {got}', {'cli': info})
                        continue
                    card, cov = got[0]
                    if card != mcard:
                        ctx.corr_fail('cli-cardinality', f'{desc}: {c!r} annotated cardinality {card}, model {mcard}', {'cli': info})
                    if card != exact:
                        ctx.oracle_fail('cli-cardinality', f'{desc}: {c!r} annotated cardinality {card} but the file holds {exact} distinct non-empty values', {'cli': info})
                    if near_tie(mean):
                        ctx.count('annot-tie-skipped')
                    else:
                        if cov != mannot:
                            ctx.corr_fail('cli-coverage', f'{desc}: {c!r} annotated coverage {cov}, model {mannot}', {'cli': info})
                        if cov != eannot:
                            ctx.oracle_fail('cli-annotation', f'{desc}: {c!r} annotated coverage {cov} but int(round(mean,1)) of the exact per-batch percentages '
                                            f'({[float(x) for x in ecovs]}) is {eannot}', {'cli': info})
                    h = obs['hist'].get(c)
                    if h != list(mhist):
                        ctx.corr_fail('cli-histogram', f'{desc}: {c!r} value_repetitions {h}, model {mhist}', {'cli': info})
                    if h is None or (distinct < j['bound'] and h != list(ehist)) or any(a > b for a, b in zip(h, ehist)):
                        ctx.oracle_fail('cli-histogram', f'{desc}: {c!r} value_repetitions {h} but the exact histogram is {list(ehist)} ({distinct} distinct, bound {j["bound"]})', {'cli': info})
                summary.append(info | {'annot': obs['annot'], 'hist': obs['hist']})
            else:
                if obs['rare'] != sorted(list(x) for x in mrare):
                    ctx.corr_fail('cli-rare', f'{desc}: rare_values.tsv {obs["rare"][:8]}… vs model {sorted(list(x) for x in mrare)[:8]}…', {'cli': info})
                er = sorted(list(x) for x in srare)
                if obs['rare'] != er:
                    extra = [x for x in obs['rare'] if x not in er][:4]
                    missing = [x for x in er if x not in obs['rare']][:4]
                    ctx.oracle_fail('cli-rare', f'{desc} --rare_value_count_upper_bound {j["thr"]}: rare_values.tsv differs from the exact table of the file: '
                                    f'reported but not exact {extra}; exact but not reported {missing}', {'cli': info})
                summary.append(info | {'rare_rows': len(obs['rare'])})
        # split independence between the runs on the same file
        groups = {}
        for j, desc, obs in results:
            groups.setdefault((j['task'], j['data'], j['bound']), []).append((j, desc, obs))
        for (task, _, _), g in groups.items():
            j0, d0, o0 = g[0]
            for j1, d1, o1 in g[1:]:
                if task == 'ranking':
                    if j0.get('explode'):                        # constructed columns are per-batch objects: their rows depend on the split
                        o0 = {kk: {c: v for c, v in vv.items() if c in j0['names']} for kk, vv in o0.items()}
                        o1 = {kk: {c: v for c, v in vv.items() if c in j1['names']} for kk, vv in o1.items()}
                    c0 = {k: sorted({x[0] for x in v}) for k, v in sorted(o0['annot'].items())}
                    c1 = {k: sorted({x[0] for x in v}) for k, v in sorted(o1['annot'].items())}
                    if c0 != c1:
                        ctx.oracle_fail('cli-card-split', f'annotated cardinalities depend on --minibatch_size: {c0} ({d0}) vs {c1} ({d1})', {'cli': [j0['size'], j1['size']]})
                    if o0['hist'] != o1['hist']:
                        ctx.oracle_fail('cli-hist-split', f'value_repetitions.json depends on --minibatch_size: {o0["hist"]} ({d0}) vs {o1["hist"]} ({d1})', {'cli': [j0['size'], j1['size']]})
                elif o0['rare'] != o1['rare']:
                    diff = [x for x in o1['rare'] if x not in o0['rare']][:4] + [x for x in o0['rare'] if x not in o1['rare']][:4]
                    ctx.oracle_fail('cli-rare-split', f'rare_values.tsv depends on --minibatch_size: {d0} vs {d1}: rows in only one of them {diff}', {'cli': [j0['size'], j1['size']]})
        ctx.extra['cli_runs'] = summary
    finally:
        for j in st['jobs']:
            if j['proc'].poll() is None:
                j['proc'].kill()
            try:
                j['log'].close()
            except Exception:  # noqa: BLE001
                pass
        shutil.rmtree(st['tmp'], ignore_errors=True)


# ----------------------------------------------------------------------------------------------------------------------

def corpus():
    u, v, w = 'u', 'v', 'w'
    return [
        # F8: the pair (c0,u) is retired after batch 1 and must not come back
        {'names': ['c0'], 'rows': [[u], [u], [u], [v], [u], [w]], 'comps': [[6], [4, 2]], 'miss': ',{}', 'thr': 2, 'bound': 30000, 'hll': None},
        {'names': ['c0', 'c1'], 'rows': [['u', 'a'], ['u', ''], ['u', '{}'], ['v', 'a'], ['u', 'a'], ['w', '']], 'comps': [[6], [4, 2], [1] * 6],
         'miss': ',{}', 'thr': 2, 'bound': 2, 'hll': None},
        # the same value in two columns is two different pairs
        {'names': ['c0', 'c1'], 'rows': [['x', 'y'], ['x', 'x'], ['y', 'x'], ['x', 'x']], 'comps': [[4], [2, 2], [3, 1]], 'miss': 'x', 'thr': 1, 'bound': 1, 'hll': [5, 1]},
        {'names': ['c0'], 'rows': [[''], ['{}'], ['NA'], ['a'], ['']], 'comps': [[5], [1, 4], [2, 3]], 'miss': 'NA,,NA', 'thr': 0, 'bound': 0, 'hll': [3, 4]},
        {'names': ['c0'], 'rows': [[f'v{i % 9}'] for i in range(30)], 'comps': [[30], [7, 7, 7, 9], [1] * 30], 'miss': '', 'thr': 3, 'bound': 5, 'hll': [3, 4]},
    ]


def evaluate_scale(ctx: Ctx, specs):
    """the rare-value report at scale: N identifier-like values seen twice in batch 1 (they exceed the bound 1 and are retired),
    N other values seen once in batch 2.  Exact recomputation over the consumed rows: exactly the N values of batch 2, count 1 each;
    and the same rows as ONE batch must give the same report.  Oracle only (the property's own clause)."""
    import random

    import pandas as pd
    from outrank import core_ranking as cr
    for spec in specs:
        r = random.Random(f'scale:{spec["seed"]}')
        N, col = spec['n'], spec['column']
        a = ['%016x' % r.getrandbits(64) for _ in range(N)]
        b = ['%016x' % r.getrandbits(64) for _ in range(N)]
        first = a + a
        r.shuffle(first)
        args = types.SimpleNamespace(missing_value_symbols='', rare_value_count_upper_bound=1)
        ctx.evaluations += 1
        ctx.count('rare-report-at-scale')
        reports = []
        for batches in ([first, b], [first + b]):
            cr.GLOBAL_RARE_VALUE_STORAGE = collections.Counter()
            cr.IGNORED_VALUES = set()
            try:
                for rows in batches:
                    cr.compute_value_counts(pd.DataFrame({col: rows}), args)
                reports.append({k: int(v) for k, v in cr.GLOBAL_RARE_VALUE_STORAGE.items()})
            finally:
                cr.GLOBAL_RARE_VALUE_STORAGE = collections.Counter()
                cr.IGNORED_VALUES = set()
        exact = {(col, v): 1 for v in set(b) - set(a)}
        show = (f'column {col!r}: {N} random 16-hex values twice each in batch 1, {N} others once each in batch 2 (generated from seed {spec["seed"]}), '
                f'rare bound 1')
        for rep, how in zip(reports, ('two batches', 'one batch')):
            if rep != exact:
                missing = [k for k in exact if k not in rep][:3]
                extra = [(k, v) for k, v in rep.items() if exact.get(k) != v][:3]
                ctx.oracle_fail('rare-exact', f'{show}, consumed as {how}: the report has {len(rep)} entries, the exact recomputation {len(exact)}; '
                                f'missing {missing}, wrong/extra {extra}', {'scale': spec})
                break


def scale_specs(rng, k):
    return [{'n': rng.choice([250000, 300000]), 'column': rng.choice(['campaign', 'f0', 'user id']), 'seed': rng.randrange(10 ** 6)} for _ in range(k)]


def run(ctx: Ctx):
    cli = cli_start(ctx)
    try:
        n = 2000 if ctx.thorough() else 700
        evaluate(ctx, corpus() + [gen_case(ctx.rng, ctx.thorough()) for _ in range(n)])
        evaluate_scale(ctx, scale_specs(ctx.rng, 3 if ctx.thorough() else 1))
    except BaseException:
        for j in cli['jobs']:
            j['proc'].kill()
        shutil.rmtree(cli['tmp'], ignore_errors=True)
        raise
    cli_collect(ctx, cli)


def search(ctx: Ctx):
    sub = Ctx(ctx.prop, ctx.tier)
    sub.rng.seed(f'search:{ctx.seed}')
    evaluate(sub, [gen_case(sub.rng, True) for _ in range(1800)], oracle_only=True)
    evaluate_scale(sub, scale_specs(sub.rng, 2))
    return sub.oracle_failures


def replay(ctx: Ctx, payload):
    case = payload['case']
    if 'cli' in case:
        print('replay: end-to-end CLI finding – re-run ./check C13 quick (the CLI runs are part of every check run)')
        return
    if 'scale' in case:
        evaluate_scale(ctx, [case['scale']])
        return
    evaluate(ctx, [case])
