"""C05 – each emitted score is the selected heuristic applied to the two columns.

Two ties:
  T  translator: `conduct_feature_ranking` / `numba_mi` and the project's documented heuristic names are re-read from the
     tree under test on EVERY run (harness/c05_translate.py, Python `ast`) into lean/OutrankModel/Gen/Dispatch.lean; the
     theorems of Props/C05.lean over those tables are re-checked by `lake build`.  The real dispatch (which scorer is
     invoked for a name, observed by spying on the module attributes) is compared with the Lean `dispatch` of the table.
  C  correspondence: the real `mixed_rank_graph` (synchronous stand-in pool) on generated string frames vs the Lean model
     (`tripletC`: category codes, label orientation, dispatch, MI model / coverage / constant), pair by pair.
Oracle = the property's clauses on the implementation's emitted rows: plug-in MI (Lean `MI plugin`, proved = miPlugin),
corrected score with the label as conditioning side (Lean `MI corrected`), largest joint-value frequency (Lean `covspec`),
0 for Constant, the same library call on independently derived codes for AMI / Pearson, and "no documented non-surrogate
name scores like a constant"."""
from __future__ import annotations

import logging
import math
import os
import types
import warnings
from fractions import Fraction

import c05_translate
from mi_common import r_exact, tol
from vp_common import LEAN_DIR, Atom, Ctx, line, run_driver

PROP = 'C05'
GEN_DEPENDENT = True
GEN_FILE = os.path.join(LEAN_DIR, 'OutrankModel', 'Gen', 'Dispatch.lean')
RULE = ('string frames from one PRNG: 2..8 columns, 30..400 rows, label at a random position (cardinality 2 mostly; 1, 3..5, n/2 '
        'sometimes); feature families constant / binary / k in {3,7} / sqrt n / n/2 / all-distinct / copy of the label / copy of '
        'another column / renamed copy / (noisy) function of the label / zipf; value alphabets: words, digit strings (lexicographic != '
        'numeric order), unicode (accents, CJK, emoji, combining marks), empty string, blanks, case variants; column names ascii / '
        'unicode / with blanks. Every frame is run through the real mixed_rank_graph for every documented non-surrogate heuristic '
        'and the seven names of the property, in target-only or pairwise mode (both covered per frame), cap 1024 (sometimes small), '
        'sampling ratio 1.0 (sometimes < 1 for the numba family: correspondence only). Plus one dispatch probe per heuristic name '
        '(real conduct_feature_ranking on int8 category codes, scorer spied). Plus DIRECT calls of conduct_feature_ranking on int64 / int32 / int16 vectors whose codes are not 0..k-1 (sparse ids, offsets, -1/+1, gaps) for MI, AMI, the numba family and Pearson, judged against the library function of that name / the densely recoded pair. Non-trivial = evaluated pair with both columns '
        'non-constant under a non-Constant heuristic; distinct = distinct (heuristic, joint partition structure of the oriented pair).')
ASSUMPTIONS = [
    'sklearn.mutual_info_classif(discrete_features=True) is GIVEN the semantics plug-in MI (compared numerically, tolerance 4e-6*(1+ln n))',
    'float32/fastmath rounding inside numba is outside the model: same tolerance as C01',
    'adjusted_mutual_info_score and scipy pearsonr are named externals: the emitted score is compared with a direct call of the same '
    'function on codes the harness derives independently (rank in sorted(set(column)))',
    'pandas category coding of string columns without missing values = rank among the sorted distinct values (checked on every column: '
    'pandas codes = Lean catCodes = independent ranks)',
    'max-value-coverage equals the largest joint-value frequency only when the pair hash is collision-free on the occurring pairs '
    '(proved for < 800 categories per side); otherwise only >= is demanded',
    'pairs without the label: the property fixes no conditioning side; the oracle accepts either orientation, the correspondence '
    'demands the enumeration order',
    'surrogate-* heuristics, reference-model JSON priors and missing values (code -1) are outside the property',
    'the pathos pool is replaced by a synchronous stand-in (amap evaluates in submission order); the real pool is C09\'s subject',
]
PROPERTY_NAMES = ['MI', 'MI-numba-3mr', 'MI-numba-randomized', 'max-value-coverage', 'AMI', 'correlation-Pearson', 'Constant']
EXTRA_PROBE_NAMES = ['MI-numba', 'surrogate-SGD', 'surrogate-SVM', 'surrogate-SGD-RP', 'surrogate-SGD-SVD', 'no-such-heuristic', '', 'mi',
                     'MI-numba-randomized-ap', 'xMI-numba']
_documented_cache = None


# ---------------------------------------------------------------------------------------------
# translator (T tie)

def translate(ctx: Ctx):
    from vp_common import REPO
    problems, info = c05_translate.translate_repo(REPO, GEN_FILE)
    for p in problems:
        ctx.tie_broken.append(p)
    ctx.extra['translator'] = {'rules': [[c[0], c[1], k] for c, k in info['rules']], 'correctionName': info['correctionName'],
                               'documentedNames': info['documented'], 'problems': problems}


def documented():
    """the documented names as the Lean side sees them (Gen.documentedNames through the driver)"""
    global _documented_cache
    if _documented_cache is None:
        _documented_cache = list(run_driver([line(Atom(PROP), Atom('documented'))])[0])
    return _documented_cache


def oracle_names():
    """every documented non-surrogate name + the seven names the property itself lists"""
    out = [h for h in documented() if not h.startswith('surrogate-')]
    for h in PROPERTY_NAMES:
        if h not in out:
            out.append(h)
    return out


# ---------------------------------------------------------------------------------------------
# running the real code

class SyncPool:
    """stand-in for the pathos pool: `with pool as p: p.amap(f, xs)` → ready result, evaluated in submission order"""
    def __enter__(self):
        return self

    def __exit__(self, *a):
        return False

    ncpus = nodes = 1

    def map(self, f, xs):
        return [f(x) for x in xs]

    def imap(self, f, xs):
        return iter(self.map(f, xs))

    uimap = imap

    def amap(self, f, xs):
        res = self.map(f, xs)
        return types.SimpleNamespace(ready=lambda: True, get=lambda: res)

    def close(self):
        pass

    join = clear = close


class PBar:
    def set_description(self, *_a, **_k):
        pass

    def update(self, *_a, **_k):
        pass


def _quiet():
    logging.getLogger('syn-logger').setLevel(logging.CRITICAL)
    import warnings
    warnings.filterwarnings('ignore')


def indep_codes(col):
    ranks = {v: i for i, v in enumerate(sorted(set(col)))}
    return [ranks[v] for v in col]


def run_pipeline(frame, label, h, mode, cap, r, warmup=False):
    """real mixed_rank_graph; returns dict(rows, evaluated=[(combination, triplet)], codes={name: list} | None, error).
    `warmup`: the sampler's counters are not fresh – an earlier batch of the same process ranked the first columns only, under a
    cap of 2 (uneven evaluation counts), as happens when constructed columns come and go between batches"""
    import pandas as pd
    import outrank.core_ranking as cr
    _quiet()
    cr.GLOBAL_PRIOR_COMB_COUNTS.clear()
    df = pd.DataFrame({name: list(vals) for name, vals in frame})
    args = types.SimpleNamespace(heuristic=h, label_column=label, target_ranking_only=mode, combination_number_upper_bound=cap,
                                 reference_model_JSON='', mi_stratified_sampling_ratio=r)
    if warmup and len(frame) >= 3:
        feats = [name for name, _ in frame if name != label]
        keep = set(feats[:max(1, len(feats) // 2)]) | {label}
        try:
            wargs = types.SimpleNamespace(**{**vars(args), 'combination_number_upper_bound': 2, 'heuristic': 'Constant'})
            cr.mixed_rank_graph(df[[name for name, _ in frame if name in keep]], wargs, SyncPool(), PBar())
        except Exception:      # noqa: BLE001 – history only
            pass
    evaluated = []
    seen = {}
    orig = cr.get_importances_estimate_pairwise

    def spy(combination, reference_model_features, a, tmp_df):
        if 'codes' not in seen:
            seen['codes'] = {k: [int(x) for x in tmp_df[k].values] for k in tmp_df.columns}
            seen['dtypes'] = {k: str(tmp_df[k].dtype) for k in tmp_df.columns}
        out = orig(combination, reference_model_features, a, tmp_df)
        evaluated.append((tuple(combination), (out[0], out[1], float(out[2]))))
        return out
    cr.get_importances_estimate_pairwise = spy
    try:
        res = cr.mixed_rank_graph(df, args, SyncPool(), PBar())
        rows = [(a, b, float(s)) for a, b, s in res.triplet_scores]
        return {'rows': rows, 'evaluated': evaluated, 'codes': seen.get('codes'), 'dtypes': seen.get('dtypes'), 'error': None}
    except Exception as e:                                            # noqa: BLE001 – the outcome enum of DESIGN §2.3
        return {'rows': [], 'evaluated': evaluated, 'codes': seen.get('codes'), 'dtypes': seen.get('dtypes'),
                'error': f'raises:{type(e).__name__}', 'message': str(e)[:160]}
    finally:
        cr.get_importances_estimate_pairwise = orig


def pandas_codes(frame):
    import pandas as pd
    df = pd.DataFrame({name: list(vals) for name, vals in frame}).astype('category')
    return {name: [int(x) for x in df[name].cat.codes] for name, _ in frame}, {name: str(df[name].cat.codes.dtype) for name, _ in frame}


def probe_dispatch(h, Y, X):
    """real conduct_feature_ranking on category codes as the pipeline produces them (int8/int16), scorers spied.
    returns (callee name | 'fallback0' | 'const0', score | None, error | None)"""
    import numpy as np
    import pandas as pd
    import outrank.algorithms.importance_estimator as ie
    _quiet()
    a = pd.Series([str(v) for v in Y]).astype('category').cat.codes.values
    b = pd.Series([str(v) for v in X]).astype('category').cat.codes.values
    called = []
    saved = {}
    names = {'sklearn_MI': 'sklearnMI', 'numba_mi': 'numbaMI', 'sklearn_mi_adj': 'ami', 'pearsonr': 'pearson'}

    def wrap(attr, tag, holder):
        f = getattr(holder, attr)
        saved[(holder, attr)] = f

        def w(*args, **kw):
            called.append(tag)
            return f(*args, **kw)
        setattr(holder, attr, w)
    for attr, tag in names.items():
        wrap(attr, tag, ie)
    wrap('max_pair_coverage', 'coverage', ie.ranking_cov_alignment)
    saved[(ie, 'sklearn_surrogate')] = ie.sklearn_surrogate
    ie.sklearn_surrogate = lambda *a_, **k_: (called.append('surrogate'), 0.5)[1]      # never trained here
    warned = []

    class H(logging.Handler):
        def emit(self, rec):
            warned.append(rec.getMessage())
    hd = H(level=logging.WARNING)
    ie.logger.addHandler(hd)
    lvl = ie.logger.level
    ie.logger.setLevel(logging.WARNING)
    args = types.SimpleNamespace(heuristic=h, mi_stratified_sampling_ratio=1.0, reference_model_JSON='', label_column='label')
    try:
        s = ie.conduct_feature_ranking(a, b, args)
        s = float(s)
        err = None
    except Exception as e:                                            # noqa: BLE001
        s, err = None, f'raises:{type(e).__name__}: {str(e)[:120]}'
    finally:
        for (holder, attr), f in saved.items():
            setattr(holder, attr, f)
        ie.logger.removeHandler(hd)
        ie.logger.setLevel(lvl)
    if called:
        callee = called[0]
    elif any(m.endswith('not defined!') for m in warned):
        callee = 'fallback0'
    else:
        callee = 'const0'
    return callee, s, err


# ---------------------------------------------------------------------------------------------
# generator

UNI = ['\u00e9', 'e', '\u00c9', '\u00ea', '\u65e5\u672c', '\u65e5', '\u00df', 'ss', '\U0001f600', 'a\u0301', '\u03a9', '\u03c9', '\u01c6',
       '\u0130', '\u0131', '\u044f', '\u00a0', '\u200b', '\u00f1', 'n\u0303', '\uff21', '\U00010400']
NAMES_F = ['f{}', 'feat_{}', 'F {}', 'ф{}', 'c{}-(3; 100)', '列{}', 'x.{}', '{}']
NAMES_L = ['label', 'click', 'ラベル', 'the label', 'y', 'Label', 'target-(2; 100)']


def make_values(rng, k):
    """k distinct strings in one of several alphabets"""
    style = rng.choice(['words', 'digits', 'unicode', 'mixed', 'case', 'padded'])
    out = []
    if style == 'words':
        out = [f'v{i}' for i in rng.sample(range(10 * k + 3), k)]
    elif style == 'digits':                                   # '10' < '9' as strings
        out = [str(i) for i in rng.sample(range(12 * k + 5), k)]
    elif style == 'unicode':
        base = rng.sample(UNI, min(k, len(UNI)))
        out = base + [rng.choice(UNI) + str(i) for i in range(k - len(base))]
    elif style == 'mixed':
        base = ['', ' ', '0', 'a', 'A', 'é', 'nan', 'None', 'NA', '-1', '1.0', '1', 'true', '\t']
        rng.shuffle(base)
        out = base[:k] + [f'm{i}' for i in range(k - len(base))]
    elif style == 'case':
        out = [(f'k{i}' if i % 2 else f'K{i // 2 * 2 + 1}') for i in range(k)]
    else:
        out = [' ' * (i % 3) + str(i) + ' ' * (i % 2) for i in range(k)]
    out = list(dict.fromkeys(out))
    i = 0
    while len(out) < k:
        out.append(f'z{i}')
        out = list(dict.fromkeys(out))
        i += 1
    if rng.random() < 0.25 and '' not in out:
        out[rng.randrange(k)] = ''
    return out[:k]


def zipf_idx(rng, n, k):
    w = [1.0 / (i + 1) for i in range(k)]
    return rng.choices(range(k), weights=w, k=n)


def gen_frame(rng, thorough=False, max_rows=400):
    u = rng.random()
    n = rng.randint(30, 60) if u < 0.5 else (rng.randint(61, 200) if u < 0.85 else rng.randint(min(201, max_rows), max_rows))
    n = min(n, max_rows)
    ncols = rng.randint(2, 8)
    lpos = rng.randrange(ncols)
    lname = rng.choice(NAMES_L)
    tmpl = rng.choice(NAMES_F)
    names = []
    for i in range(ncols):
        names.append(lname if i == lpos else tmpl.format(i))
    v = rng.random()
    lk = 2 if v < 0.7 else (rng.randint(3, 5) if v < 0.9 else (1 if v < 0.95 else max(2, n // 2)))
    lvals = make_values(rng, lk)
    lidx = [rng.randrange(lk) for _ in range(n)]
    cols = {lname: [lvals[i] for i in lidx]}
    fams = {}
    order = [i for i in range(ncols) if i != lpos]
    for i in order:
        fam = rng.choice(['const', 'binary', 'k3', 'k7', 'sqrt', 'half', 'distinct', 'copylabel', 'copycol', 'renamed',
                          'func', 'noisy', 'zipf', 'indep'])
        k = {'const': 1, 'binary': 2, 'k3': 3, 'k7': 7, 'sqrt': max(2, int(math.sqrt(n))), 'half': max(2, n // 2),
             'distinct': n}.get(fam, rng.choice([2, 3, 5, 12, 40]))
        k = min(k, n)
        if fam == 'copylabel':
            col = list(cols[lname])
        elif fam in ('copycol', 'renamed') and len(cols) > 1:
            src = cols[rng.choice([c for c in cols if c != lname])]
            if fam == 'copycol':
                col = list(src)
            else:
                d = sorted(set(src))
                new = make_values(rng, len(d))
                m = dict(zip(d, new))
                col = [m[x] for x in src]
        elif fam == 'func':
            vals = make_values(rng, max(1, min(k, lk)))
            f = [rng.randrange(len(vals)) for _ in range(lk)]
            col = [vals[f[j]] for j in lidx]
        elif fam == 'noisy':
            vals = make_values(rng, max(2, lk))
            col = [vals[j % len(vals)] if rng.random() > 0.15 else rng.choice(vals) for j in lidx]
        elif fam == 'zipf':
            vals = make_values(rng, k)
            col = [vals[j] for j in zipf_idx(rng, n, k)]
        elif fam == 'distinct':
            vals = make_values(rng, n)
            rng.shuffle(vals)
            col = vals
        else:
            vals = make_values(rng, k)
            col = [vals[rng.randrange(k)] for _ in range(n)]
        cols[names[i]] = col
        fams[names[i]] = fam
    frame = [[nm, cols[nm]] for nm in names]
    return {'kind': 'frame', 'frame': frame, 'label': lname, 'families': fams}


def gen_runs(rng, names):
    """every heuristic name once, the two modes alternating from a random start (so both are covered per frame)"""
    runs = []
    start = rng.randrange(2)
    for i, h in enumerate(names):
        mode = 'True' if (i + start) % 2 == 0 else 'False'
        cap = 1024 if rng.random() < 0.9 else rng.choice([1, 3, 7])
        r = 1.0
        if 'MI-numba' in h and rng.random() < 0.12:
            r = rng.choice([0.5, 0.25, 0.9, 0.3])
        runs.append({'heuristic': h, 'mode': mode, 'cap': cap, 'r': r, 'warmup': rng.random() < 0.25})
    return runs


def gen_case(rng, thorough=False, max_rows=400):
    c = gen_frame(rng, thorough, max_rows)
    c['runs'] = gen_runs(rng, oracle_names() + (['MI-numba'] if rng.random() < 0.3 else []))
    return c


def probe_pair(n=64):
    """fixed, non-periodic informative pair (the displaced copy of C03 must not coincide with the original):
    X = bits of a small LCG, Y = X with every position where the LCG state is divisible by 7 flipped"""
    st, X, Y = 12345, [], []
    for _ in range(n):
        st = (1103515245 * st + 12345) % (2 ** 31)
        x = (st >> 16) & 1
        X.append(x)
        Y.append(1 - x if st % 7 == 0 else x)
    return Y, X


def probe_cases():
    Y, X = probe_pair()
    names = list(dict.fromkeys(documented() + PROPERTY_NAMES + EXTRA_PROBE_NAMES))
    return [{'kind': 'name', 'heuristic': h, 'Y': Y, 'X': X} for h in names]


# ---------------------------------------------------------------------------------------------
# evaluation

def _close(a, b, t):
    if a is None or b is None:
        return False
    if math.isnan(a) or math.isnan(b):
        return math.isnan(a) and math.isnan(b)
    return abs(a - b) <= t


def _partition_key(A, B):
    ma, mb = {}, {}
    return hash(tuple((ma.setdefault(a, len(ma)), mb.setdefault(b, len(mb))) for a, b in zip(A, B)))


def _lib_score(h, A, B):
    import numpy as np
    if h == 'AMI':
        from sklearn.metrics import adjusted_mutual_info_score
        return float(adjusted_mutual_info_score(np.asarray(A), np.asarray(B)))
    from scipy.stats import pearsonr
    return float(pearsonr(np.asarray(A), np.asarray(B))[0])


def _short_frame(c):
    fr = c['frame']
    return f'{len(fr)} columns x {len(fr[0][1])} rows, label={c["label"]!r}'


def _mini(c, run, cols_needed):
    """replay case: only the columns of the failing pair + the label, only the failing run"""
    keep = [col for col in c['frame'] if col[0] in cols_needed or col[0] == c['label']]
    return {'kind': 'frame', 'frame': keep, 'label': c['label'], 'runs': [run]}


def evaluate_names(ctx: Ctx, cases, oracle_only=False):
    if not cases:
        return
    rep = run_driver([line(Atom(PROP), Atom('dispatch'), c['heuristic']) for c in cases])
    docs = set(documented())
    for c, (mcallee, mflag) in zip(cases, rep):
        h = c['heuristic']
        ctx.evaluations += 1
        ctx.count('probe:' + ('documented' if h in docs else 'other'))
        callee, s, err = probe_dispatch(h, c['Y'], c['X'])
        if not oracle_only:
            ctx.traces += 1
            if callee != str(mcallee):
                ctx.corr_fail('dispatch', f'heuristic {h!r}: real conduct_feature_ranking invoked {callee}, the table regenerated from '
                              f'the source says {mcallee}', c)
        ctx.sample({'heuristic': h, 'real_callee': callee, 'model_callee': str(mcallee), 'score': s, 'error': err})
        in_scope = (h in docs and not h.startswith('surrogate-')) or h in PROPERTY_NAMES
        if not in_scope:
            if h in docs and callee == 'fallback0':
                note = f'documented surrogate name {h!r} matches no branch (scores 0.0); outside C05 (surrogate family excluded by the property)'
                if note not in ctx.notes:
                    ctx.notes.append(note)
            continue
        ctx.nontrivial.add(('probe', h))
        if err is not None:
            ctx.oracle_fail('raises:' + (callee if callee not in ('const0', 'fallback0') else h),
                            f'heuristic {h!r} on the int8 category codes of Y={c["Y"][:8]}… X={c["X"][:8]}… (n={len(c["X"])}): {err}', c)
        elif h != 'Constant' and (callee == 'fallback0' or s == 0.0):
            ctx.oracle_fail('constant-score',
                            f'heuristic {h!r} (documented / named by the property) reached {callee} and scored {s!r} on an informative '
                            f'pair (Y = X with {sum(1 for a, b in zip(c["Y"], c["X"]) if a != b)} of n={len(c["X"])} cells flipped): it silently degrades to a constant score', c)


def evaluate(ctx: Ctx, cases, oracle_only=False):
    evaluate_names(ctx, [c for c in cases if c.get('kind') == 'name'], oracle_only)
    frames = [c for c in cases if c.get('kind', 'frame') == 'frame']
    if not frames:
        return
    req = []
    plan = []
    for c in frames:
        frame, label = c['frame'], c['label']
        names = [nm for nm, _ in frame]
        n = len(frame[0][1])
        ic = {nm: indep_codes(vals) for nm, vals in frame}
        pc, pdt = pandas_codes(frame)
        entry = {'case': c, 'ic': ic, 'pc': pc, 'runs': [], 'n': n}
        # model requests: codes of every column, then the whole frame with one job per run
        entry['codes_at'] = len(req)
        for nm, vals in frame:
            req.append(line(Atom(PROP), Atom('codes'), list(vals)))
        jobs = []
        rgroups = {}
        for run in c['runs']:
            out = run_pipeline(frame, label, run['heuristic'], run['mode'], run['cap'], run['r'], run.get('warmup', False))
            rr = r_exact(__import__('numpy').float32(run['r']))
            entry['runs'].append({'run': run, 'out': out, 'r': rr})
            rgroups.setdefault(rr, []).append(len(entry['runs']) - 1)
        entry['frame_at'] = {}
        for rr, idxs in rgroups.items():
            js = [[entry['runs'][i]['run']['heuristic'], [list(comb) for comb, _ in entry['runs'][i]['out']['evaluated']]] for i in idxs]
            entry['frame_at'][rr] = (len(req), idxs)
            req.append(line(Atom(PROP), Atom('frame'), label, rr.numerator, rr.denominator, [[nm, list(vals)] for nm, vals in frame], js))
        # spec requests (oracle), de-duplicated per unordered / ordered pair of columns
        spec = {}

        def want(kind, a, b=None):
            key = (kind, a, b)
            if key not in spec:
                spec[key] = len(req)
                if kind == 'plugin':
                    req.append(line(Atom('MI'), Atom('plugin'), ic[a], ic[b]))
                elif kind == 'corrected':
                    req.append(line(Atom('MI'), Atom('corrected'), ic[a], ic[b]))
                elif kind == 'entropy':
                    req.append(line(Atom('MI'), Atom('entropy'), ic[a]))
                elif kind == 'cov':
                    req.append(line(Atom(PROP), Atom('covspec'), ic[a], ic[b]))
        for e in entry['runs']:
            h, out = e['run']['heuristic'], e['out']
            pairs = {(a, b) for a, b, _ in out['rows']}
            for a, b in pairs:
                if a not in ic or b not in ic:
                    continue
                if h in ('MI', 'MI-numba-3mr'):
                    x, y = sorted((a, b))
                    want('plugin', x, y)
                elif h == 'MI-numba-randomized':
                    want('corrected', a, b)
                    want('corrected', b, a)
                    want('entropy', a)
                elif h == 'max-value-coverage':
                    want('cov', a, b)
                    want('cov', b, a)
        entry['spec'] = spec
        plan.append(entry)
    rep = run_driver(req)

    for entry in plan:
        c, ic, pc, n = entry['case'], entry['ic'], entry['pc'], entry['n']
        frame, label = c['frame'], c['label']
        names = [nm for nm, _ in frame]
        t = tol(n)
        ctx.count('frames')
        ctx.count(f'cols={len(frame)}')
        ctx.count('rows<=60' if n <= 60 else ('rows<=200' if n <= 200 else 'rows>200'))
        ctx.count(f'label-pos={"first" if names[0] == label else ("last" if names[-1] == label else "middle")}')
        for fam in c.get('families', {}).values():
            ctx.count('family:' + fam)
        if any('' in vals for _, vals in frame):
            ctx.count('has-empty-string')
        if any(any(ord(ch) > 127 for ch in v) for _, vals in frame for v in vals):
            ctx.count('has-unicode')
        # --- category codes: pandas = Lean catCodes = independent ranks
        for j, (nm, vals) in enumerate(frame):
            lean_codes = rep[entry['codes_at'] + j]
            if not oracle_only:
                ctx.traces += 1
                if list(lean_codes) != pc[nm]:
                    k = next(i for i in range(n) if lean_codes[i] != pc[nm][i])
                    ctx.corr_fail('codes', f'column {nm!r}: pandas code {pc[nm][k]} vs Lean catCodes {lean_codes[k]} for value {vals[k]!r} (row {k})',
                                  {'kind': 'frame', 'frame': [[nm, vals], [label, dict(frame)[label]]] if nm != label else [[nm, vals]],
                                   'label': label, 'runs': [{'heuristic': 'Constant', 'mode': 'False', 'cap': 1024, 'r': 1.0}]})
            if ic[nm] != pc[nm]:
                k = next(i for i in range(n) if ic[nm][i] != pc[nm][i])
                ctx.oracle_fail('codes', f'column {nm!r}: category code {pc[nm][k]} of value {vals[k]!r} (row {k}) is not its rank {ic[nm][k]} among the '
                                f'sorted distinct values', {'kind': 'frame', 'frame': [[nm, vals]] + ([[label, dict(frame)[label]]] if nm != label else []),
                                                            'label': label, 'runs': [{'heuristic': 'Constant', 'mode': 'False', 'cap': 1024, 'r': 1.0}]})
        # --- per run
        for rr, (at, idxs) in entry['frame_at'].items():
            mjobs = rep[at]
            for mj, i in zip(mjobs, idxs):
                entry['runs'][i]['model'] = mj
        for e in entry['runs']:
            run, out, rr = e['run'], e['out'], e['r']
            h, mode = run['heuristic'], run['mode']
            ctx.count('heuristic:' + h)
            ctx.count('mode:' + ('target-only' if mode == 'True' else 'pairwise'))
            if rr != 1:
                ctx.count('ratio<1 (correspondence only)')
            where = f'{_short_frame(c)}, heuristic={h!r}, target_ranking_only={mode}, cap={run["cap"]}, ratio={run["r"]}'
            if out['error'] is not None:
                comb = out['evaluated'][-1][0] if out['evaluated'] else None
                ctx.oracle_fail('raises:' + h, f'{where}: the pipeline {out["error"]} ({out.get("message", "")}); column code dtypes {out.get("dtypes")}',
                                _mini(c, run, set(names[:2])))
                continue
            if out['codes'] is not None and not oracle_only:
                for nm in names:
                    if out['codes'].get(nm) != pc[nm]:
                        ctx.corr_fail('codes-in-pipeline', f'{where}: tmp_df[{nm!r}] handed to the scorer differs from astype(category).cat.codes', _mini(c, run, {nm}))
                        break
            # correspondence: every evaluated combination against the Lean model
            if not oracle_only:
                model = e.get('model', [])
                for (comb, trip), m in zip(out['evaluated'], model):
                    ctx.traces += 1
                    ma, mb, ms = m
                    kind = str(ms[0])
                    ok = (trip[0], trip[1]) == (ma, mb)
                    if ok and kind == 'val':
                        ok = _close(trip[2], ms[1], t)
                    elif ok and kind == 'exact':
                        ok = trip[2] == float(Fraction(ms[1]))
                    elif ok and kind == 'err':
                        ok = False
                    if not ok:
                        ctx.corr_fail('triplet:' + h, f'{where}: evaluated pair {comb!r}: implementation returned {trip!r}, model {(ma, mb, ms)!r} (tol {t:.1e})',
                                      _mini(c, run, set(comb)))
                        break
                # emitted rows = the evaluated triplets, each also mirrored (Constant: not mirrored, score 0.0)
                from collections import Counter
                if h == 'Constant':
                    exp_rows = None
                else:
                    exp_rows = Counter()
                    for _, trip in out['evaluated']:
                        exp_rows[(trip[1], trip[0], repr(trip[2]))] += 1
                        exp_rows[(trip[0], trip[1], repr(trip[2]))] += 1
                    if Counter((a, b, repr(s)) for a, b, s in out['rows']) != exp_rows:
                        ctx.corr_fail('rows', f'{where}: emitted rows are not the evaluated triplets plus their mirror images', _mini(c, run, set(names)))
            # oracle: the property's clause on every emitted row
            spec = entry['spec']
            failed = False
            for a, b, s in out['rows']:
                if failed:
                    break
                ctx.evaluations += 1          # one evaluated case = one emitted (A, B, score) row
                if a not in ic or b not in ic:
                    ctx.oracle_fail('row-names', f'{where}: row ({a!r}, {b!r}) names a column that is not in the batch', _mini(c, run, set(names)))
                    break
                A, B = ic[a], ic[b]
                nontriv = len(set(A)) > 1 and len(set(B)) > 1 and h != 'Constant'
                if nontriv:
                    ctx.nontrivial.add((h, _partition_key(A, B)))
                mini = _mini(c, run, {a, b})
                what = f'{where}: row ({a!r}, {b!r}, {s!r})'
                if h == 'Constant':
                    if s != 0.0:
                        ctx.oracle_fail('score:Constant', f'{what}: Constant must score 0', mini)
                        failed = True
                elif rr != 1:
                    continue                                   # subsampled estimate: no clause of C05 (C04 covers it)
                elif h in ('MI', 'MI-numba-3mr'):
                    x, y = sorted((a, b))
                    want = rep[spec[('plugin', x, y)]]
                    if not _close(s, want, t):
                        ctx.oracle_fail('score:' + h, f'{what}: plug-in MI of the two coded columns is {want!r} (tol {t:.1e}); codes {a!r}={A[:10]}… {b!r}={B[:10]}…', mini)
                        failed = True
                elif h == 'MI-numba-randomized':
                    cab, cba, ha = rep[spec[('corrected', a, b)]], rep[spec[('corrected', b, a)]], rep[spec[('entropy', a, None)]]
                    if A == B:
                        if not _close(s, ha, t):
                            ctx.oracle_fail('score:' + h, f'{what}: identical columns must score their entropy {ha!r}', mini)
                            failed = True
                    elif a == label or b == label:
                        want, other = (cba, cab) if a == label else (cab, cba)     # feature first, label = conditioning side
                        if not _close(s, want, t):
                            if _close(s, other, t):
                                ctx.oracle_fail('orientation', f'{what}: equals the corrected score with the FEATURE as conditioning side ({other!r}); '
                                                f'with the label {label!r} conditioning it is {want!r}', mini)
                            else:
                                ctx.oracle_fail('score:' + h, f'{what}: corrected score H(F*|label) - H(F|label) is {want!r} (tol {t:.1e})', mini)
                            failed = True
                    elif not (_close(s, cab, t) or _close(s, cba, t)):
                        ctx.oracle_fail('score:' + h, f'{what}: corrected score is {cab!r} / {cba!r} for the two orientations (tol {t:.1e})', mini)
                        failed = True
                elif h == 'max-value-coverage':
                    ok = False
                    msgs = []
                    for (x, y) in ((a, b), (b, a)):
                        mj, nn, inj, _mc = rep[spec[('cov', x, y)]]
                        lo = float(Fraction(mj, nn))
                        if (s == lo) if inj == Atom('true') else (s >= lo):
                            ok = True
                        msgs.append(f'largest joint-value frequency {mj}/{nn}' + ('' if inj == Atom('true') else ' (hash collisions among the occurring pairs: >= demanded)'))
                    if not ok:
                        ctx.oracle_fail('score:' + h, f'{what}: {msgs[0]}', mini)
                        failed = True
                elif h in ('AMI', 'correlation-Pearson'):
                    want = _lib_score(h, A, B)
                    if not _close(s, want, 1e-9):
                        ctx.oracle_fail('score:' + h, f'{what}: the library function on the independently coded columns gives {want!r}', mini)
                        failed = True
                elif h in oracle_names():
                    # a documented name the property gives no formula for: it must at least not be a constant
                    pass
            if out['rows']:
                ctx.sample({'frame': _short_frame(c), 'heuristic': h, 'mode': mode, 'rows': out['rows'][:3]}, limit=8)


def shrink(ctx: Ctx):
    """cheap reduction of frame cases of the recorded oracle failures: fewer rows while the same key still fails"""
    done = set()
    for f in ctx.oracle_failures:
        if f.key in done or not isinstance(f.case, dict) or f.case.get('kind') != 'frame':
            continue
        done.add(f.key)
        case = f.case
        n = len(case['frame'][0][1])
        for _ in range(8):
            if n <= 4:
                break
            m = max(4, n // 2)
            cand = dict(case, frame=[[nm, vals[:m]] for nm, vals in case['frame']])
            sub = Ctx(ctx.prop, ctx.tier)
            try:
                evaluate(sub, [cand], oracle_only=True)
            except Exception:                                         # noqa: BLE001
                break
            hit = [g for g in sub.oracle_failures if g.key == f.key]
            if not hit:
                break
            case, n = cand, m
            f.case, f.desc = hit[0].case, hit[0].desc


def gen_direct(rng):
    """two integer vectors as a library caller may hold them: codes that are not 0..k-1 (sparse ids, offsets, -1/+1 labels),
    numpy's default int64 or narrow dtypes"""
    n = rng.choice([4, 9, 30, 120, 400])
    ka, kb = rng.choice([2, 3, 5, 9]), rng.choice([2, 2, 3, 4])
    A = [rng.randrange(ka) for _ in range(n)]
    B = [(a + rng.randrange(2)) % kb if rng.random() < 0.7 else rng.randrange(kb) for a in A]
    style = rng.choice(['dense', 'sparse', 'offset', 'plusminus', 'gappy'])
    if style == 'sparse':
        ma, mb = rng.sample(range(0, 30000), ka), rng.sample(range(0, 30000), kb)
    elif style == 'offset':
        ma, mb = [100 + i for i in range(ka)], [7 + i for i in range(kb)]
    elif style == 'plusminus':
        ma, mb = list(range(ka)), ([-1, 1] + list(range(2, kb)))[:kb]
    elif style == 'gappy':
        ma, mb = [2 * i for i in range(ka)], [2 * i for i in range(kb)]
    else:
        ma, mb = list(range(ka)), list(range(kb))
    h = rng.choice(['MI', 'MI', 'AMI', 'MI-numba', 'MI-numba-randomized', 'correlation-Pearson'])
    if h.startswith('MI-numba'):
        ma, mb = [abs(v) for v in ma], [abs(v) + (1 if style == 'plusminus' else 0) for v in mb]
        mb = list(dict.fromkeys(mb)) + [max(mb) + 1 + i for i in range(kb)]
    return {'kind': 'direct', 'A': [ma[a] for a in A], 'B': [mb[b] for b in B], 'heuristic': h, 'dtype': rng.choice(['int64', 'int64', 'int32', 'int16']),
            'style': style}


def evaluate_direct(ctx: Ctx, cases):
    """conduct_feature_ranking called directly on integer vectors: the score is the selected heuristic applied to the two
    vectors – the library function of that name on the same values (MI: sklearn's mutual_info_score, AMI, Pearson), and for the
    partition-based heuristics it does not change when the codes are replaced by dense first-occurrence codes"""
    import numpy as np
    import outrank.algorithms.importance_estimator as ie
    from sklearn.metrics import mutual_info_score
    _quiet()
    for c in cases:
        A, B, h = c['A'], c['B'], c['heuristic']
        a, b = np.asarray(A, dtype=c['dtype']), np.asarray(B, dtype=c['dtype'])
        args = types.SimpleNamespace(heuristic=h, mi_stratified_sampling_ratio=1.0, reference_model_JSON='', label_column='label')
        ctx.evaluations += 1
        ctx.count('direct:' + h)
        ctx.count('direct-codes:' + c['style'])
        if len(set(A)) > 1 and len(set(B)) > 1:
            ctx.nontrivial.add(('direct', h, _partition_key(A, B)))
        show = f'conduct_feature_ranking({c["dtype"]} vector {A[:10]}…, {c["dtype"]} vector {B[:10]}…, heuristic={h!r}) on {len(A)} rows'
        try:
            with warnings.catch_warnings():
                warnings.simplefilter('ignore')
                got = float(ie.conduct_feature_ranking(a.reshape(-1, 1).copy() if h in ('MI',) or h.startswith('MI-numba') else a.copy(), b.copy(), args))
        except Exception as e:   # noqa: BLE001
            ctx.oracle_fail('direct-raises', f'{show} raised {type(e).__name__}: {str(e)[:160]}', c)
            continue
        da, db = {}, {}
        A2, B2 = [da.setdefault(v, len(da)) for v in A], [db.setdefault(v, len(db)) for v in B]
        if A != B and A2 == B2:                      # the recoding must not turn two different vectors into a self pair
            B2 = [v + len(da) for v in B2]
        if h == 'MI':
            want, what = max(0.0, float(mutual_info_score(A, B))), "sklearn's mutual information of the two vectors"
        elif h in ('AMI', 'correlation-Pearson'):
            if h == 'correlation-Pearson' and (len(set(A)) < 2 or len(set(B)) < 2):
                continue
            want, what = _lib_score(h, A, B), 'the library score of that name on the same values'
        else:
            a2, b2 = np.asarray(A2, dtype=np.int32), np.asarray(B2, dtype=np.int32)
            want, what = float(ie.conduct_feature_ranking(a2.reshape(-1, 1), b2, args)), 'the score of the same pair under dense first-occurrence codes'
        if not _close(got, want, 1e-6 + 4e-6 * (1 + math.log(len(A)))):
            ctx.oracle_fail('direct-score', f'{show} = {got!r}, but {what} is {want!r}', c)


def corpus():
    lab = ['1', '0', '1', '1', '0', '0', '1', '0'] * 5
    x = ['u', 'v', 'u', 'u', 'v', 'v', 'u', 'u'] * 5
    z = [str(i % 5) for i in range(40)]
    fr = [['x', x], ['z', z], ['label', lab]]
    runs = [{'heuristic': h, 'mode': m, 'cap': 1024, 'r': 1.0} for h in PROPERTY_NAMES for m in ('True', 'False')]
    return [{'kind': 'frame', 'frame': fr, 'label': 'label', 'runs': runs},
            {'kind': 'frame', 'frame': [['label', lab], ['x', x]], 'label': 'label', 'runs': runs[:6]}]


def run(ctx: Ctx):
    nfr = 1500 if ctx.thorough() else 150
    cases = probe_cases() + corpus() + [gen_case(ctx.rng, ctx.thorough()) for _ in range(nfr)]
    for i in range(0, len(cases), 100):
        evaluate(ctx, cases[i:i + 100])
    evaluate_direct(ctx, [gen_direct(ctx.rng) for _ in range(3000 if ctx.thorough() else 400)])
    shrink(ctx)


def search(ctx: Ctx):
    sub = Ctx(ctx.prop, ctx.tier)
    sub.rng.seed(f'search:{ctx.seed}')
    cases = probe_cases() + [gen_case(sub.rng, False, max_rows=120) for _ in range(500)]
    for i in range(0, len(cases), 100):
        evaluate(sub, cases[i:i + 100], oracle_only=True)
    evaluate_direct(sub, [gen_direct(sub.rng) for _ in range(1500)])
    shrink(sub)
    return sub.oracle_failures


def replay(ctx: Ctx, payload):
    if payload['case'].get('kind') == 'direct':
        evaluate_direct(ctx, [payload['case']])
    else:
        evaluate(ctx, [payload['case']])
