"""C20 – derived synthetic structure (correlation, labels, noise, ...) is as declared.

Tie: the real methods of `CategoricalClassification` are run on data sets produced by the real `generate_data` (C19):
 * generate_duplicates / generate_combinations: result and `dataset_info` entry compared with the Lean model (`dup`, `comb`);
   nonlinear / bitwise / custom combinations recomputed independently; random SEQUENCES of combination / correlation /
   duplication steps: the whole self-description compared with `C20.runOps` and checked to list every added column once.
 * generate_correlated: Pearson(source, generated) against `scipy.stats.pearsonr` to 1e-9 over r in (-1, 1) incl. +-0.999,
   +-1e-3 and low-variance sources (the theorem `correlated_pearson` is over the reals; floating-point linear algebra and
   QR are externals), plus the bookkeeping.
 * generate_labels: `np.percentile` wrapped to learn the decision values and quantile positions; labels compared with the
   exact-rational model (`labels`), monotonicity decided by Lean (`monospec`), class sizes against `class_size_bounds`
   for tie-free decision values.  k-means (`class_relation='cluster'`, `balance`): shape only.
 * generate_noise: recorded numpy draws replayed by the Lean model (`noisecat`, `noisemiss`), Lean-decided clauses on the
   implementation's output (`noisecatspec`, `noisemissspec`), input array compared before/after.
 * downsample_dataset: `sklearn.utils.resample` wrapped (external, its output is an input of the model and checked for
   well-formedness), Lean model `down` and Lean-decided `downspec`."""
from __future__ import annotations

from fractions import Fraction

import numpy as np

from cc_common import Recorder
from vp_common import Atom, Ctx, line, run_driver

PROP = 'C20'
RULE = ('data sets from the real generate_data (2..6 features, 3..40 samples (thorough ..150), cardinalities 2..8, wide and narrow '
        'distributions) x operation kinds {duplicates (int / list / ndarray indices, repeated, out of range), combinations (linear, '
        'nonlinear, xor/and/or, custom), sequences of 1..6 column-adding steps, correlated (r over (-1,1) incl. +-0.999, +-1e-3, 0; '
        'low-variance sources), labels (n = 2 scalar p; n > 2 equal; n > 2 list p; linear / nonlinear / custom decision; tie-free '
        'family with pairwise distinct decision values; cluster), categorical noise (label sets {0,1}, {0,2}, {0..k}, one-sample '
        'classes, single class; p in {0, .1, .2, .3, .5, 1}), missing noise (default -inf marker on the int32 data, int marker, '
        'float data), down-sampling (n None / 1 / min / too large; reshuffle; seeds)}. Non-trivial = noise with n_flip >= 1 and >= 2 '
        'classes, duplicates/sequences adding >= 2 columns, labels with >= 2 classes present, down-sampling with >= 2 classes, '
        'correlation with |r| >= 1e-3; distinct = distinct (data arguments, operation arguments).')
ASSUMPTIONS = ['numpy global generator: recorded draws replayed, well-formedness checked by the Lean tape generator (C19.tape_wf)',
               'sklearn.utils.resample is an external: its output is recorded, checked (n rows, each of the class) and handed to the model',
               'ndarray.argsort is an external: the harness recomputes y.argsort() (deterministic) and checks it is a sorting permutation',
               'generate_correlated: the theorem is over the reals for every non-constant source and non-collinear noise; floating-point '
               'linear algebra, scipy QR (Q = +-a/|a| for one column) and np.mean/np.std are externals: the tie measures |pearsonr - r| <= 1e-9 '
               '(n_samples >= 3: with 2 samples every centred noise is collinear with the source)',
               'labels: quantile positions are the floats numpy computes (percentile/100); the model is exact over Q on them; where '
               '(n-1)q is within 1e-9 of an integer numpy\'s floor may differ: class sizes then compared with +-1 (tie-free) or skipped',
               'class proportions are claimed for tie-free decision values (pairwise distinct by more than 1e-9 relative: sums equal over the reals may differ in the last ulp) and a distribution summing to 1',
               'categorical noise needs >= 2 classes (the replacement comes from another label) and 0 <= p <= 1',
               'k-means (class_relation="cluster", balance) is an external: shape only',
               'floor(p*n) is int(n*p) as evaluated in floating point by the code (recomputed independently by the harness)']


# ------------------------------------------------------------------------------------------------
# data

def gen_data_args(rng, thorough, min_samples=3):
    nS = rng.choice([3, 4, 5, 6, 8, 10, 11, 12, 16, 21, 30, 40] + ([80, 150] if thorough else []))
    nS = max(nS, min_samples)
    return {'n_features': rng.randint(2, 6), 'n_samples': nS, 'cardinality': rng.randint(2, 8), 'k': rng.choice([1, 1, 2, 0.5, 10]),
            'seed': rng.randrange(2 ** 31), 'ensure_rep': rng.random() < 0.5}


def make(dargs):
    from outrank.algorithms.synthetic_data_generators.cc_generator import CategoricalClassification
    cc = CategoricalClassification(seed=dargs['seed'] % 1000)
    X = cc.generate_data(**dargs)
    return cc, X


def rows(X):
    return [[int(v) for v in r] for r in np.asarray(X).tolist()]


def cols(X):
    return rows(np.asarray(X).T)


def gen_index(rng, w, allow_bad=True):
    k = rng.choice([1, 1, 2, 2, 3])
    idx = [rng.randrange(w) for _ in range(k)]
    if allow_bad and rng.random() < 0.05:
        idx[-1] = w + rng.randrange(2)
    form = rng.choice(['list', 'list', 'array', 'int'])
    if form == 'int':
        idx = idx[:1]
    return idx, form


def idx_py(idx, form):
    return idx[0] if form == 'int' else (np.array(idx) if form == 'array' else list(idx))


def gen_labels_y(rng, n, fam=None):
    fam = fam or rng.choice(['01', '01', '02', '0k', 'single1', 'oneclass', 'neg'])
    if fam == '01':
        y = [rng.randrange(2) for _ in range(n)]
    elif fam == '02':
        y = [rng.choice([0, 2]) for _ in range(n)]
    elif fam == '0k':
        k = rng.randint(3, 4)
        y = [rng.randrange(k) for _ in range(n)]
    elif fam == 'neg':
        y = [rng.choice([-1, 1, 5]) for _ in range(n)]
    elif fam == 'single1':
        y = [0] * n
        y[rng.randrange(n)] = 1
        if rng.random() < 0.5 and n > 3:
            y[rng.randrange(n)] = 2
    else:
        y = [1] * n
    return y, fam


def gen(rng, thorough):
    t = rng.choices(['dup', 'comb', 'seq', 'corr', 'labels', 'noisecat', 'noisemiss', 'down', 'branch'], [12, 12, 10, 14, 18, 16, 8, 10, 6])[0]
    d = gen_data_args(rng, thorough)
    c = {'t': t, 'data': d}
    w, n = d['n_features'], d['n_samples']
    if t in ('dup', 'comb', 'seq') and rng.random() < 0.3:
        # values near the ends of the int32 range: a sum / copy of int32 columns must still be the stated function of its sources
        d['low'] = rng.choice([2 ** 30 - 3, 1_200_000_000, 2 ** 31 - 20, -2 ** 31 + 5, -1_500_000_000, 2 ** 29])
    if t == 'noisecat' and rng.random() < 0.3:
        d['low'] = rng.choice([-20, -3, -1, -200])          # domains with negative codes (not for missing-type noise: its int marker is -1)
    if t == 'corr' and rng.random() < 0.25:
        # large codes that lie close together (ids, timestamps): the spread is tiny next to the magnitude, the source is NOT constant
        d['low'] = rng.choice([250_000, 4_000_000, 10 ** 8, 2 ** 30])
    if t == 'dup':
        c['idx'], c['form'] = gen_index(rng, w)
    elif t == 'comb':
        c['idx'] = [rng.randrange(w) for _ in range(rng.choice([1, 2, 2, 3]))]
        if rng.random() < 0.04:
            c['idx'][-1] = w
        c['ctype'] = rng.choice(['linear', 'linear', 'nonlinear', 'xor', 'and', 'or', 'custom'])
        if rng.random() < 0.2 and all(i < w for i in c['idx']):
            # the sources selected by a boolean column mask (numpy semantics: the columns where the mask is true, in column order)
            c['idx'] = sorted(set(c['idx']))
            c['mask'] = rng.choice(['array', 'list'])
    elif t == 'seq':
        ops, cur = [], w
        for _ in range(rng.randint(1, 6)):
            kind = rng.choice(['comb', 'corr', 'dup'])
            idx, form = gen_index(rng, cur, allow_bad=False)
            if kind == 'comb':
                form = 'list'
            if kind == 'corr':
                idx = [i % w for i in idx]              # sources among the original columns (made non-constant by eval_seq)
            ops.append([kind, idx, form])
            cur += 1 if kind == 'comb' else len(idx)
        c['ops'] = ops
    elif t == 'branch':
        def op(cur):
            kind = rng.choice(['dup', 'dup', 'comb', 'corr'])
            idx, form = gen_index(rng, cur if kind != 'corr' else w, allow_bad=False)
            return [kind, idx, 'list' if kind == 'comb' else form]
        c['first'] = op(w)
        w1 = w + (1 if c['first'][0] == 'comb' else len(c['first'][1]))
        c['a'], c['b'] = op(w1), op(w1)
        c['npseed'] = rng.randrange(2 ** 31)
    elif t == 'corr':
        c['idx'], c['form'] = gen_index(rng, w, allow_bad=False)
        c['r'] = rng.choice([0.8, 0.5, -0.5, 0.999, -0.999, 1e-3, -1e-3, 0.0, 0.3, -0.9, rng.uniform(-0.99, 0.99), rng.uniform(-0.99, 0.99)])
        c['lowvar'] = rng.random() < 0.25
        c['npseed'] = rng.randrange(2 ** 31)
    elif t == 'labels':
        fam = rng.choice(['n2', 'n2', 'equal', 'list', 'list', 'cluster'])
        c['fam'] = fam
        c['relation'] = rng.choice(['linear', 'linear', 'nonlinear', 'custom'])
        c['tiefree'] = rng.random() < 0.5
        if fam == 'n2':
            c['n'] = 2
            c['p'] = rng.choice([0.5, 0.5, 0.3, 0.2, 0.1, 0.9, 0.25, 1.0, 0.0, round(rng.random(), 2)])
            c['plist'] = rng.random() < 0.2
        elif fam == 'equal':
            c['n'] = rng.randint(3, 5)
            c['p'] = 0.5
            if rng.random() < 0.5:                 # many classes: 100/n is not a binary fraction, the cut list is built in floating point
                c['n'] = rng.randint(6, 100)
                c['tiefree'] = True
                c['data']['n_samples'] = c['n'] * rng.randint(2, 8) + rng.randrange(c['n'])
        elif fam == 'list':
            k = rng.randint(3, 5)
            cuts = sorted(rng.sample(range(1, 20), k - 1))
            parts = [b - a for a, b in zip([0] + cuts, cuts + [20])]
            c['n'] = k
            c['p'] = [x / 20 for x in parts]
        else:
            c['n'] = rng.randint(2, 3)
            c['p'] = rng.choice([0.5, 0.3]) if c['n'] == 2 else 0.5      # a two-entry distribution needs two clusters
            c['balance'] = rng.random() < 0.5
            c['data']['n_samples'] = max(c['data']['n_samples'], 8)
    elif t == 'noisecat':
        c['y'], c['yfam'] = gen_labels_y(rng, n)
        c['p'] = rng.choice([0.0, 0.1, 0.2, 0.2, 0.3, 0.3, 0.5, 1.0])
        c['npseed'] = rng.randrange(2 ** 31)
    elif t == 'noisemiss':
        c['marker'] = rng.choice(['default', 'default', 'int', 'floatdata', 'nan'])
        c['p'] = rng.choice([0.0, 0.1, 0.2, 0.3, 0.5, 1.0])
        c['npseed'] = rng.randrange(2 ** 31)
    else:
        c['y'], c['yfam'] = gen_labels_y(rng, n, rng.choice(['01', '01', '02', '0k', 'neg', 'oneclass']))
        c['n'] = rng.choice([None, None, 1, 2, 'min', 'big'])
        c['seed'] = rng.choice([42, rng.randrange(1000)])
        c['reshuffle'] = rng.random() < 0.4
        c['npseed'] = rng.randrange(2 ** 31)
    return c


def custom_mod7(x):
    return np.sum(x, axis=1) % 7


def decision_rank(x):
    return np.sum(3 * x - 1, axis=1)


def canon_info(info):
    return {'combs': [[[int(i) for i in np.atleast_1d(e['feature_indices'])], int(e['combination_ix']), str(e['combination_type'])] for e in info['combinations']],
            'corrs': [[[int(i) for i in np.atleast_1d(e['feature_indices'])], [int(i) for i in np.atleast_1d(e['correlated_indices'])]] for e in info['correlations']],
            'dups': [[[int(i) for i in np.atleast_1d(e['feature_indices'])], [int(i) for i in np.atleast_1d(e['duplicate_indices'])]] for e in info['duplicates']]}


def outcome(f):
    try:
        return 'ok', f()
    except Exception as e:                                            # noqa: BLE001
        return 'raises:' + type(e).__name__, str(e)[:120]


class Batch:
    def __init__(self):
        self.req, self.todo = [], []

    def ask(self, lines, cont):
        self.todo.append((len(self.req), len(lines), cont))
        self.req.extend(lines)

    def flush(self):
        rep = run_driver(self.req)
        todo, self.req, self.todo = self.todo, [], []
        for i, n, cont in todo:
            cont(rep[i:i + n])


# ------------------------------------------------------------------------------------------------

def evaluate(ctx: Ctx, cases, oracle_only=False):
    for lo in range(0, len(cases), 300):
        b = Batch()
        for c in cases[lo:lo + 300]:
            ctx.evaluations += 1
            ctx.count('type:' + c['t'])
            EVAL[c['t']](ctx, c, oracle_only, b)
        b.flush()


def short(c):
    d = c['data']
    return (f'{c["t"]} on generate_data(n_features={d["n_features"]}, n_samples={d["n_samples"]}, cardinality={d["cardinality"]}, k={d["k"]}, '
            f'ensure_rep={d["ensure_rep"]}, seed={d["seed"]}) ' + str({k: v for k, v in c.items() if k not in ('t', 'data')}))


def model_err(rep):
    return rep[0] == Atom('err')


# ---- duplicates ---------------------------------------------------------------------------------

def eval_dup(ctx, c, oracle_only, b):
    cc, X = make(c['data'])
    X0 = X.copy()
    w = X.shape[1]
    out, res = outcome(lambda: cc.generate_duplicates(X, idx_py(c['idx'], c['form'])))
    ctx.count('outcome:' + out)
    valid = all(0 <= i < w for i in c['idx'])
    if out != 'ok':
        if valid:
            ctx.oracle_fail('dup-raises', f'{short(c)}: valid indices but generate_duplicates raised {out[7:]}: {res}', c)
        return
    info = canon_info(cc.dataset_info)['dups'][-1]
    k = len(c['idx'])
    if res.shape != (X.shape[0], w + k) or not np.array_equal(res[:, :w], X0) or any(not np.array_equal(res[:, w + j], X0[:, i]) for j, i in enumerate(c['idx'])):
        ctx.oracle_fail('dup-exact', f'{short(c)}: the appended columns are not exact copies of columns {c["idx"]} / the original columns changed', c)
    if info != [c['idx'], list(range(w, w + k))]:
        ctx.oracle_fail('dup-info', f'{short(c)}: width {w} -> {w + k}, new columns {list(range(w, w + k))}, but dataset_info records '
                        f'feature_indices={info[0]} duplicate_indices={info[1]}', c)
    if k >= 2:
        ctx.nontrivial.add(repr(c))
    if not oracle_only:
        def cont(rep):
            ctx.traces += 1
            m = rep[0]
            if model_err(m) or [list(r) for r in m[1]] != rows(res) or [list(m[2]), list(m[3])] != info:
                ctx.corr_fail('dup', f'{short(c)}: impl (info {info}) differs from the model {str(m)[:160]}', c)
        b.ask([line(Atom(PROP), Atom('dup'), rows(X0), c['idx'])], cont)
    ctx.sample({'case': short(c), 'info': info})


# ---- combinations -------------------------------------------------------------------------------

def eval_comb(ctx, c, oracle_only, b):
    cc, X = make(c['data'])
    X0 = X.copy()
    w = X.shape[1]
    ct = c['ctype']
    kw = {'combination_type': ct} if ct in ('linear', 'nonlinear') else {'combination_function': {'xor': cc._xor, 'and': cc._and, 'or': cc._or, 'custom': custom_mod7}[ct]}
    sel = list(c['idx'])
    if c.get('mask'):
        sel = [i in c['idx'] for i in range(w)]
        sel = np.array(sel) if c['mask'] == 'array' else sel
        ctx.count('comb:selection-by-boolean-mask')
    out, res = outcome(lambda: cc.generate_combinations(X, sel, **kw))
    ctx.count('outcome:' + out)
    ctx.count('comb:' + ct)
    valid = all(0 <= i < w for i in c['idx']) and (ct not in ('xor', 'and', 'or') or len(c['idx']) >= 2)
    if out != 'ok':
        if valid:
            ctx.oracle_fail('comb-raises', f'{short(c)}: valid arguments but generate_combinations raised {out[7:]}: {res}', c)
        return
    sel = [[int(X0[i, j]) for j in c['idx']] for i in range(X0.shape[0])]
    if ct == 'linear':
        want = [sum(r) for r in sel]
    elif ct == 'nonlinear':
        want = [float(np.sin(sum(r))) for r in sel]
    elif ct == 'custom':
        want = [sum(r) % 7 for r in sel]
    else:
        import functools
        import operator
        op = {'xor': operator.xor, 'and': operator.and_, 'or': operator.or_}[ct]
        want = [functools.reduce(op, r) for r in sel]
    got = res[:, w].tolist()
    info = canon_info(cc.dataset_info)['combs'][-1]
    name = {'linear': 'linear', 'nonlinear': 'nonlinear', 'xor': '_xor', 'and': '_and', 'or': '_or', 'custom': 'custom_mod7'}[ct]
    if res.shape != (X.shape[0], w + 1) or not np.array_equal(res[:, :w], X0) or got != want:
        ctx.oracle_fail('comb-function', f'{short(c)}: appended column {got[:8]} is not the {ct} combination {want[:8]} of columns {c["idx"]} '
                        f'(or the original columns changed)', c)
    if c.get('mask'):
        info = [c['idx']] + info[1:] if info[0] == [int(i in c['idx']) for i in range(w)] else info      # the mask is recorded as given
    if info != [c['idx'], w, name]:
        ctx.oracle_fail('comb-info', f'{short(c)}: dataset_info records {info}, expected {[c["idx"], w, name]}', c)
    if ct == 'linear' and not oracle_only:
        def cont(rep):
            ctx.traces += 1
            m = rep[0]
            if model_err(m) or [list(r) for r in m[1]] != rows(res) or [list(m[2]), m[3]] != info[:2]:
                ctx.corr_fail('comb', f'{short(c)}: impl differs from the model {str(m)[:160]}', c)
        b.ask([line(Atom(PROP), Atom('comb'), rows(X0), c['idx'])], cont)
    if len(c['idx']) >= 2:
        ctx.nontrivial.add(repr(c))


# ---- sequences: the whole self-description ------------------------------------------------------

def eval_seq(ctx, c, oracle_only, b):
    cc, X = make(c['data'])
    w0 = X.shape[1]
    X = X.copy()
    X[0, :] += 1                                        # every original column non-constant (correlation sources)
    X[-1, :] -= 1

    def run():
        Y = X
        for kind, idx, form in c['ops']:
            if kind == 'comb':
                Y = cc.generate_combinations(Y, list(idx))
            elif kind == 'corr':
                Y = cc.generate_correlated(Y, idx_py(idx, form), r=0.5)
            else:
                Y = cc.generate_duplicates(Y, idx_py(idx, form))
        return Y
    with np.errstate(all='ignore'):
        out, Y = outcome(run)
    ctx.count('outcome:' + out)
    if out != 'ok':
        ctx.oracle_fail('seq-raises', f'{short(c)}: valid indices but the sequence raised {out[7:]}: {Y}', c)
        return
    info = canon_info(cc.dataset_info)
    listed = sorted([e[1] for e in info['combs']] + [i for e in info['corrs'] for i in e[1]] + [i for e in info['dups'] for i in e[1]])
    if listed != list(range(w0, Y.shape[1])):
        ctx.oracle_fail('info-added', f'{short(c)}: width {w0} -> {Y.shape[1]}: columns {list(range(w0, Y.shape[1]))} were added but dataset_info lists '
                        f'{listed} (combination_ix / correlated_indices / duplicate_indices)', c)
    if Y.shape[1] - w0 >= 2:
        ctx.nontrivial.add(repr(c))
    if not oracle_only:
        def cont(rep):
            ctx.traces += 1
            m = rep[0]
            mi = {'combs': [[list(e[0]), e[1]] for e in m[1]], 'corrs': [[list(e[0]), list(e[1])] for e in m[2]], 'dups': [[list(e[0]), list(e[1])] for e in m[3]]}
            ii = {'combs': [e[:2] for e in info['combs']], 'corrs': info['corrs'], 'dups': info['dups']}
            if m[0] != Y.shape[1] or mi != ii:
                ctx.corr_fail('info', f'{short(c)}: dataset_info {ii} (width {Y.shape[1]}) differs from the model {mi} (width {m[0]})', c)
        b.ask([line(Atom(PROP), Atom('info'), w0, [[Atom(k), i] for k, i, _ in c['ops']])], cont)


# ---- branching derivations: several data sets derived from ONE parent on one generator object --------------------

def eval_branch(ctx, c, oracle_only, b):
    """X1 = op0(X); Xa = opA(X1); Xb = opB(X1).  Every derived data set must be (and stay) the stated function of its sources:
    a later call on the same parent must not alter a data set that was already returned."""
    from scipy.stats import pearsonr
    cc, X = make(c['data'])
    X = X.copy()
    X[0, :] += 1
    X[-1, :] -= 1

    def apply(Y, op):
        kind, idx, form = op
        if kind == 'comb':
            return cc.generate_combinations(Y, list(idx))
        if kind == 'corr':
            return cc.generate_correlated(Y, idx_py(idx, form), r=0.5)
        return cc.generate_duplicates(Y, idx_py(idx, form))

    def wrong(parent, child, op):
        """None, or what is wrong with `child` = op(parent)"""
        kind, idx, form = op
        w = parent.shape[1]
        if child.shape[0] != parent.shape[0] or not np.array_equal(np.asarray(child[:, :w], dtype=float), np.asarray(parent, dtype=float), equal_nan=True):
            return 'the parent columns are not an unchanged prefix'
        if kind == 'dup':
            for j, src in enumerate(idx):
                if not np.array_equal(np.asarray(child[:, w + j], dtype=float), np.asarray(parent[:, src], dtype=float), equal_nan=True):
                    return f'column {w + j} is not a copy of column {src}'
        elif kind == 'comb':
            if not np.array_equal(np.asarray(child[:, w], dtype=float), np.asarray(parent[:, list(idx)], dtype=float).sum(axis=1), equal_nan=True):
                return f'column {w} is not the sum of columns {list(idx)}'
        else:
            for j, src in enumerate(idx):
                col = np.asarray(parent[:, src], dtype=float)
                new = np.asarray(child[:, w + j], dtype=float)
                if parent.shape[0] < 4 or np.all(col == col[0]) or not np.all(np.isfinite(col)) or not np.all(np.isfinite(new)):
                    continue                      # degenerate sources (too few samples, constant, non-finite): the correlation clause says nothing
                with np.errstate(all='ignore'):
                    pr = float(pearsonr(col, np.asarray(child[:, w + j], dtype=float))[0])
                if not abs(pr - 0.5) <= 1e-9:
                    return f'Pearson(column {src}, column {w + j}) = {pr!r}, requested 0.5'
        return None

    np.random.seed(c['npseed'])
    with np.errstate(all='ignore'):
        out, res = outcome(lambda: apply(X, c['first']))
        if out != 'ok':
            ctx.count('outcome:' + out)
            return
        X1 = res
        X1s = np.array(X1, copy=True)
        out, Xa = outcome(lambda: apply(X1, c['a']))
        if out != 'ok':
            ctx.count('outcome:' + out)
            return
        Xas = np.array(Xa, copy=True)
        out, Xb = outcome(lambda: apply(X1, c['b']))
    ctx.count('outcome:' + out)
    if out != 'ok':
        return
    ctx.nontrivial.add(repr(c))
    for nm, now, snap in (('the parent', X1, X1s), ('the first derived data set', Xa, Xas)):
        if now.shape != snap.shape or not np.array_equal(np.asarray(now, dtype=float), np.asarray(snap, dtype=float), equal_nan=True):
            ctx.oracle_fail('branch-aliasing', f'{short(c)}: {nm} changed after it was returned (a later derivation from the same parent wrote into it)', c)
            return
    for nm, child, op in (('first', Xa, c['a']), ('second', Xb, c['b'])):
        w = wrong(X1s, child, op)
        if w:
            ctx.oracle_fail('branch-derivation', f'{short(c)}: the {nm} data set derived from the common parent by {op}: {w}', c)
            return


# ---- correlation --------------------------------------------------------------------------------

def eval_corr(ctx, c, oracle_only, b):
    from scipy.stats import pearsonr
    cc, X = make(c['data'])
    X = X.copy()
    if c['lowvar']:
        j = c['idx'][0]
        X[:, j] = X[0, j]
        X[-1, j] = X[0, j] + 1                         # a single deviating sample
    w = X.shape[1]
    X0 = X.copy()
    np.random.seed(c['npseed'])
    with np.errstate(all='ignore'):
        out, res = outcome(lambda: cc.generate_correlated(X, idx_py(c['idx'], c['form']), r=c['r']))
    ctx.count('outcome:' + out)
    if out != 'ok':
        ctx.oracle_fail('corr-raises', f'{short(c)}: generate_correlated raised {out[7:]}: {res}', c)
        return
    k = len(c['idx'])
    info = canon_info(cc.dataset_info)['corrs'][-1]
    if res.shape != (X.shape[0], w + k) or not np.array_equal(res[:, :w], X0.astype(float)):
        ctx.oracle_fail('corr-shape', f'{short(c)}: result shape {res.shape}, expected {(X.shape[0], w + k)} with the original columns first, unchanged', c)
    if info != [c['idx'], list(range(w, w + k))] or cc.dataset_info['correlations'][-1]['correlation_factor'] != c['r']:
        ctx.oracle_fail('corr-info', f'{short(c)}: new columns {list(range(w, w + k))} but dataset_info records {info}', c)
    worst = 0.0
    for jj, j in enumerate(c['idx']):
        src = X0[:, j].astype(float)
        if np.all(src == src[0]):
            ctx.count('excluded:constant-source')
            continue
        with np.errstate(all='ignore'):
            pr = float(pearsonr(src, res[:, w + jj])[0])
        err = abs(pr - c['r'])
        worst = max(worst, err if err == err else float('inf'))
        ctx.count('r:' + ('|r|>=0.99' if abs(c['r']) >= 0.99 else '|r|<=1e-3' if abs(c['r']) <= 1e-3 else 'mid'))
        if not err <= 1e-9:
            ctx.oracle_fail('pearson', f'{short(c)}: Pearson(source column {j}, generated column {w + jj}) = {pr!r}, requested r = {c["r"]!r} '
                            f'(|difference| = {err:.3e} > 1e-9); source = {src[:10].tolist()}', c)
        if abs(c['r']) >= 1e-3:
            ctx.nontrivial.add(repr(c))
    ctx.extra['max_pearson_error'] = max(ctx.extra.get('max_pearson_error', 0.0), worst)
    ctx.traces += 1


# ---- labels -------------------------------------------------------------------------------------

def frac(x):
    return Fraction(float(x))


def eval_labels(ctx, c, oracle_only, b):
    cc, X = make(c['data'])
    n = X.shape[0]
    if c['tiefree']:
        spread = int(np.abs(X).sum(axis=1).max()) * 4 + 10
        perm = np.random.RandomState(c['data']['seed']).permutation(n)
        X = np.column_stack((X, perm * spread)).astype(np.int64)
    kw = {'n': c['n'], 'p': c['p']}
    if c['fam'] == 'n2' and c.get('plist'):
        kw['p'] = [c['p'], 1 - c['p']]
    if c['fam'] == 'cluster':
        kw.update(class_relation='cluster', balance=c['balance'])
    elif c['relation'] == 'custom':
        kw['decision_function'] = decision_rank
    else:
        kw['class_relation'] = c['relation']
    calls = []
    orig = np.percentile

    def wrapped(a, q, *args, **kws):
        r = orig(a, q, *args, **kws)
        calls.append((np.array(a, dtype=float, copy=True), np.atleast_1d(np.array(q, dtype=float, copy=True)), np.atleast_1d(np.array(r, dtype=float, copy=True))))
        return r
    np.percentile = wrapped
    try:
        import warnings
        with warnings.catch_warnings():
            warnings.simplefilter('ignore')
            out, y = outcome(lambda: cc.generate_labels(X, **kw))
    finally:
        np.percentile = orig
    ctx.count('outcome:' + out)
    ctx.count('labels:' + c['fam'] + ('/tiefree' if c['tiefree'] else ''))
    if out != 'ok':
        ctx.oracle_fail('labels-raises', f'{short(c)}: generate_labels raised {out[7:]}: {y}', c)
        return
    y = np.asarray(y)
    if y.shape != (n,):
        ctx.oracle_fail('labels-shape', f'{short(c)}: labels have shape {y.shape}, expected ({n},)', c)
        return
    if c['fam'] == 'cluster':
        if not set(y.tolist()) <= set(range(c['n'])):
            ctx.oracle_fail('labels-shape', f'{short(c)}: cluster labels {sorted(set(y.tolist()))} outside 0..{c["n"] - 1}', c)
        return
    if not set(y.tolist()) <= set(range(c['n'])):
        extra = sorted(set(y.tolist()) - set(range(c['n'])))
        ctx.oracle_fail('labels-classes', f'{short(c)}: {c["n"]} classes were requested but the labels contain {extra} '
                        f'({[int((y == e).sum()) for e in extra]} samples): no share of the requested distribution belongs to them', c)
        return
    if len(calls) != 1:
        ctx.corr_fail('labels-percentile-calls', f'{short(c)}: expected one np.percentile call, saw {len(calls)}', c)
        return
    d, perc, cuts_impl = calls[0]
    if c['fam'] == 'list':
        perc, cuts_impl = perc[1:], cuts_impl[1:]           # p_points[0] (the 0-th percentile) is never used
    qs = [frac(np.true_divide(x, 100)) for x in perc]
    dq = [frac(v) for v in d]
    ys = [int(v) for v in y.tolist()]
    if len(set(ys)) >= 2:
        ctx.nontrivial.add(repr(c))
    near = any(abs(float((n - 1) * q) - round(float((n - 1) * q))) < 1e-9 for q in qs)
    sd = sorted(float(v) for v in d)
    # tie-free = pairwise distinct beyond floating-point noise (sums that are equal over the reals may differ in the last ulp)
    distinct = all(bb - a > 1e-9 * max(1.0, abs(a), abs(bb)) for a, bb in zip(sd, sd[1:]))
    ctx.count('labels:near-integer-position' if near else 'labels:generic-position')
    ctx.count('labels:tie-free' if distinct else 'labels:ties')
    # class sizes for tie-free decision values (class_size_bounds); shares from the requested distribution
    sizes = [ys.count(k) for k in range(c['n'])]
    if distinct and all(0 <= q <= 1 for q in qs):
        bounds = [Fraction(0)] + qs + [Fraction(1)]
        slack = 1 if near else 0
        for k in range(len(bounds) - 1):
            share = (bounds[k + 1] - bounds[k]) * n
            lim = (1 if k in (0, len(bounds) - 2) else 2) + slack
            dev = abs(sizes[k] - share) if k < len(sizes) else abs(share)
            strict = k not in (0, len(bounds) - 2) and not slack
            if dev > lim or (strict and dev >= lim):
                ctx.oracle_fail('labels-proportion', f'{short(c)}: tie-free decision values, class {k} has {sizes[k] if k < len(sizes) else 0} of {n} samples '
                                f'but its share is {float(bounds[k + 1] - bounds[k]):.4f} (= {float(share):.3f} samples): off by {float(dev):.3f} > {lim}', c)

    def cont(rep):
        mono, m, at = rep
        if mono != Atom('true'):
            bad = next(((i, j) for i in range(n) for j in range(n) if d[i] <= d[j] and ys[i] > ys[j]), None)
            ctx.oracle_fail('labels-monotone', f'{short(c)}: labels are not a monotone function of the decision value: '
                            f'd={d[bad[0]]} -> {ys[bad[0]]}, d={d[bad[1]]} -> {ys[bad[1]]}', c)
        if oracle_only:
            return
        ctx.traces += 1
        # (a) the labelling step, exactly: label = number of the code's own cut points strictly below the decision value
        if list(at) != ys:
            i = next(i for i in range(n) if list(at)[i] != ys[i])
            ctx.corr_fail('labels-step', f'{short(c)}: sample {i} with decision value {d[i]!r} and cut points {cuts_impl.tolist()} is labelled {ys[i]}, '
                          f'the model (#cuts < d) says {list(at)[i]}', c)
        # (b) the cut points: numpy's float percentile against the exact linear-interpolation percentile
        if model_err(m):
            ctx.corr_fail('labels', f'{short(c)}: the model cannot evaluate the percentiles {perc.tolist()}', c)
            return
        scale = max(1.0, float(np.abs(d).max()))
        if any(abs(float(a) - float(bb)) > 1e-9 * scale for a, bb in zip(cuts_impl, m[1])):
            ctx.corr_fail('labels-cuts', f'{short(c)}: np.percentile gave {cuts_impl.tolist()}, the exact model {[float(x) for x in m[1]]} '
                          f'at quantile positions {[float(q) for q in qs]}', c)
        elif list(m[2]) != ys:
            # same cuts up to rounding but different labels: only possible when a decision value sits within rounding of a cut
            if near:
                ctx.count('labels:position-floor-differs')
            elif any(0 < abs(float(dv) - float(cv)) <= 1e-9 * scale for dv in d for cv in m[1]):
                ctx.count('labels:decision-value-within-rounding-of-cut')
            else:
                ctx.corr_fail('labels', f'{short(c)}: impl labels {ys[:16]} (cuts {cuts_impl.tolist()}) differ from the exact model {list(m[2])[:16]} '
                              f'(cuts {[float(x) for x in m[1]]}) at quantile positions {[float(q) for q in qs]}', c)
    b.ask([line(Atom(PROP), Atom('monospec'), dq, ys), line(Atom(PROP), Atom('labels'), dq, qs),
           line(Atom(PROP), Atom('labelsat'), dq, [frac(x) for x in cuts_impl])], cont)
    ctx.sample({'case': short(c), 'sizes': sizes})


# ---- noise --------------------------------------------------------------------------------------

def canon_tape(events):
    out = []
    for e in events:
        if str(e[0]) == 'cp':
            e = [e[0], sorted(e[1]), e[2], e[3]]            # `list(set)` order is arbitrary: canonicalised
        elif str(e[0]) not in ('cnr', 'ri', 'sh'):
            return out, False
        out.append(e)
    return out, True


def eval_noisecat(ctx, c, oracle_only, b):
    cc, X = make(c['data'])
    X0 = X.copy()
    n = X.shape[0]
    y = np.array(c['y'][:n] + [c['y'][0]] * max(0, n - len(c['y'])))
    y0 = y.copy()
    nflip = int(n * c['p'])
    nclass = len(set(y.tolist()))
    ctx.count('noisecat:y=' + c['yfam'])
    np.random.seed(c['npseed'])
    rec = Recorder()
    with rec:
        out, res = outcome(lambda: cc.generate_noise(X, y, p=c['p'], type='categorical'))
    ctx.count('outcome:' + out)
    valid = nclass >= 2 or nflip == 0
    if not valid:
        ctx.count('excluded:single-class')
    if out != 'ok':
        if valid:
            ctx.oracle_fail('noise-cat-raises:' + out[7:], f'{short(c)}: label values {sorted(set(y.tolist()))} (class sizes '
                            f'{[int((y == v).sum()) for v in sorted(set(y.tolist()))]}), n_flip={nflip}: generate_noise raised {out[7:]}: {res}', c)
        return
    if not np.array_equal(X, X0) or not np.array_equal(y, y0):
        ctx.oracle_fail('noise-input-modified', f'{short(c)}: generate_noise(type="categorical") changed its input array', c)
    if res.shape != X0.shape:
        ctx.oracle_fail('noise-cat', f'{short(c)}: result shape {res.shape} != {X0.shape}', c)
        return
    if nflip >= 1 and nclass >= 2:
        ctx.nontrivial.add(repr(c))
    inds = y.argsort()
    if sorted(inds.tolist()) != list(range(n)) or any(y[inds][i] > y[inds][i + 1] for i in range(n - 1)):
        ctx.corr_fail('argsort-ill-formed', f'{short(c)}: y.argsort() is not a sorting permutation', c)
        return
    tape, known = canon_tape(rec.events)

    def cont(rep):
        spec, m = rep
        if spec != Atom('true'):
            ch = (res != X0).sum(axis=0).tolist()
            foreign = [sorted(set(res[:, j].tolist()) - set(X0[:, j].tolist())) for j in range(X0.shape[1])]
            ctx.oracle_fail('noise-cat', f'{short(c)}: n_flip = int({n}*{c["p"]}) = {nflip}; changed cells per feature {ch}; values foreign to the feature {foreign}', c)
        if oracle_only:
            return
        ctx.traces += 1
        if not known:
            ctx.corr_fail('tape-unexpected-call', f'{short(c)}: unexpected generator call {[str(e[0]) for e in rec.events][:10]}', c)
        elif model_err(m):
            ctx.corr_fail('noisecat', f'{short(c)}: impl returned data, model {m}', c)
        elif m[1] != Atom('true') or m[2] != 0:
            ctx.corr_fail('tape-mismatch', f'{short(c)}: recorded draws are not the draws the model asks for (flag={m[1]}, unconsumed={m[2]}); '
                          f'{[[str(e[0])] + [str(x)[:40] for x in e[1:]] for e in tape[:6]]}', c)
        elif [list(col) for col in m[3]] != cols(res):
            ctx.corr_fail('noisecat', f'{short(c)}: impl {cols(res)} != model {[list(col) for col in m[3]]}', c)
    b.ask([line(Atom(PROP), Atom('noisecatspec'), cols(X0), cols(res), nflip),
           line(Atom(PROP), Atom('noisecat'), cols(X0), [int(v) for v in y.tolist()], [int(i) for i in inds.tolist()], nflip, tape)], cont)
    ctx.sample({'case': short(c), 'changed': (res != X0).sum(axis=0).tolist()})


def eval_noisemiss(ctx, c, oracle_only, b):
    cc, X = make(c['data'])
    mk = c['marker']
    if mk == 'floatdata':
        X = X.astype(float)
    X0 = X.copy()
    n = X.shape[0]
    nmiss = int(n * c['p'])
    kw = {} if mk in ('default', 'floatdata') else {'missing_val': -1 if mk == 'int' else float('nan')}
    marker = -1 if mk == 'int' else (float('nan') if mk == 'nan' else float('-inf'))
    y = np.zeros(n, dtype=int)
    np.random.seed(c['npseed'])
    ctx.count('noisemiss:marker=' + mk)
    rec = Recorder()
    with rec:
        out, res = outcome(lambda: cc.generate_noise(X, y, p=c['p'], type='missing', **kw))
    ctx.count('outcome:' + out)
    if out != 'ok':
        ctx.oracle_fail('noise-missing-raises:' + out[7:], f'{short(c)}: data dtype {X0.dtype}, marker {marker!r}, n_missing={nmiss}: '
                        f'generate_noise(type="missing") raised {out[7:]}: {res}', c)
        return
    if not np.array_equal(X, X0):
        ctx.oracle_fail('noise-input-modified', f'{short(c)}: generate_noise(type="missing") changed its input array', c)
    if res.shape != X0.shape:
        ctx.oracle_fail('noise-missing', f'{short(c)}: result shape {res.shape} != {X0.shape}', c)
        return
    sentinel = int(X0.min()) - 1000

    def cell(v):
        if (marker != marker and v != v) or v == marker:
            return sentinel
        return int(v) if float(v) == int(v) else sentinel - 1
    R = [[cell(v) for v in col] for col in np.asarray(res).T.tolist()]
    tape, known = canon_tape(rec.events)
    if nmiss >= 1:
        ctx.nontrivial.add(repr(c))

    def cont(rep):
        spec, m = rep
        if spec != Atom('true'):
            cnt = [col.count(sentinel) for col in R]
            ctx.oracle_fail('noise-missing', f'{short(c)}: n_missing = int({n}*{c["p"]}) = {nmiss} but markers per feature = {cnt} '
                            f'(or an unmarked cell changed)', c)
        if oracle_only:
            return
        ctx.traces += 1
        if not known or model_err(m) or m[1] != Atom('true') or m[2] != 0:
            ctx.corr_fail('tape-mismatch', f'{short(c)}: recorded draws are not the draws the model asks for: {str(m)[:100]}', c)
        elif [list(col) for col in m[3]] != R:
            ctx.corr_fail('noisemiss', f'{short(c)}: impl {R} != model {[list(col) for col in m[3]]}', c)
    b.ask([line(Atom(PROP), Atom('noisemissspec'), cols(X0), R, sentinel, nmiss),
           line(Atom(PROP), Atom('noisemiss'), cols(X0), n, sentinel, nmiss, tape)], cont)


# ---- down-sampling ------------------------------------------------------------------------------

def eval_down(ctx, c, oracle_only, b):
    from outrank.algorithms.synthetic_data_generators import cc_generator
    cc, X = make(c['data'])
    X0 = X.copy()
    n_s = X.shape[0]
    y = np.array(c['y'][:n_s] + [c['y'][0]] * max(0, n_s - len(c['y'])))
    classes = sorted(set(y.tolist()))
    m = min(int((y == v).sum()) for v in classes)
    n = {'min': m, 'big': m + 1}.get(c['n'], c['n'])
    resampled = []
    orig = cc_generator.resample

    def wrapped(*a, **k):
        r = orig(*a, **k)
        resampled.append([[int(v) for v in row] for row in np.asarray(r).tolist()])
        return r
    cc_generator.resample = wrapped
    np.random.seed(c['npseed'])
    rec = Recorder()
    try:
        with rec:
            out, res = outcome(lambda: cc.downsample_dataset(X, y, n=n, seed=c['seed'], reshuffle=c['reshuffle']))
    finally:
        cc_generator.resample = orig
    ctx.count('outcome:' + out)
    ctx.count('down:n=' + str(c['n']))
    n_eff = m if n is None else n
    if out != 'ok':
        if n_eff <= m:
            ctx.oracle_fail('down-raises', f'{short(c)}: class sizes {[int((y == v).sum()) for v in classes]}, n={n}: downsample_dataset raised {out[7:]}: {res}', c)
        elif out != 'raises:ValueError' and not oracle_only:
            ctx.corr_fail('down-error-kind', f'{short(c)}: n={n} > minority {m}: impl {out}, model ValueError', c)
        return
    Xd, yd = res
    Xd = np.asarray(Xd)
    ydl = [float(v) for v in np.asarray(yd).tolist()]
    if n_eff > m:
        if not oracle_only:
            ctx.corr_fail('down', f'{short(c)}: n={n} exceeds the minority class size {m} but data was returned', c)
        return
    if any(v != int(v) for v in ydl):
        ctx.oracle_fail('downsample', f'{short(c)}: non-integral labels {ydl[:5]}', c)
        return
    ydi = [int(v) for v in ydl]
    wf = len(resampled) == len(classes) and all(len(rs) == n_eff and all(row in rows(X0[y == v]) for row in rs) for rs, v in zip(resampled, classes))
    if not wf:
        ctx.corr_fail('resample-ill-formed', f'{short(c)}: sklearn.utils.resample did not return {n_eff} rows of the class per call', c)
    if len(classes) >= 2:
        ctx.nontrivial.add(repr(c))
    tape, known = canon_tape(rec.events)

    def cont(rep):
        spec, mm = rep
        if spec != Atom('true'):
            ctx.oracle_fail('downsample', f'{short(c)}: class sizes {[int((y == v).sum()) for v in classes]}, n={n_eff}: returned label counts '
                            f'{[ydi.count(v) for v in classes]} / a returned row is not a row of its class; y_down={ydi[:12]}', c)
        if oracle_only:
            return
        ctx.traces += 1
        if not known or model_err(mm) or mm[1] != Atom('true') or mm[2] != 0:
            ctx.corr_fail('tape-mismatch', f'{short(c)}: recorded draws are not the draws the model asks for: {str(mm)[:100]}', c)
        elif [list(r) for r in mm[3][0]] != rows(Xd) or list(mm[3][1]) != ydi:
            ctx.corr_fail('down', f'{short(c)}: impl differs from the model', c)
    b.ask([line(Atom(PROP), Atom('downspec'), rows(X0), [int(v) for v in y.tolist()], n_eff, rows(Xd), ydi),
           line(Atom(PROP), Atom('down'), [int(v) for v in y.tolist()], Atom('none') if n is None else n, resampled, bool(c['reshuffle']), tape)], cont)


EVAL = {'dup': eval_dup, 'comb': eval_comb, 'seq': eval_seq, 'branch': eval_branch, 'corr': eval_corr, 'labels': eval_labels, 'noisecat': eval_noisecat,
        'noisemiss': eval_noisemiss, 'down': eval_down}


def corpus():
    d = {'n_features': 4, 'n_samples': 12, 'cardinality': 5, 'k': 1, 'seed': 42, 'ensure_rep': False}
    return [
        {'t': 'dup', 'data': d, 'idx': [0], 'form': 'int'},                                   # F12
        {'t': 'dup', 'data': d, 'idx': [0, 1], 'form': 'list'},
        {'t': 'seq', 'data': d, 'ops': [['dup', [0, 1], 'list'], ['comb', [0, 5], 'list'], ['corr', [2], 'int']]},
        {'t': 'branch', 'data': d, 'first': ['dup', [0], 'int'], 'a': ['dup', [1], 'int'], 'b': ['dup', [2], 'int'], 'npseed': 3},
        {'t': 'noisecat', 'data': d, 'y': [0, 2, 0, 2, 2, 0, 0, 2, 2, 0, 2, 0], 'yfam': '02', 'p': 0.3, 'npseed': 1},          # F14
        {'t': 'noisecat', 'data': d, 'y': [0, 1, 0, 0, 0, 0, 0, 0, 0, 0, 0, 0], 'yfam': 'single1', 'p': 0.5, 'npseed': 1},    # one-sample class
        {'t': 'noisecat', 'data': d, 'y': [0, 1, 2, 0, 1, 2, 0, 1, 2, 0, 1, 2], 'yfam': '0k', 'p': 0.5, 'npseed': 3},
        {'t': 'noisemiss', 'data': d, 'marker': 'default', 'p': 0.3, 'npseed': 1},               # F15
        {'t': 'down', 'data': d, 'y': [0, 1, 0, 1, 1, 0, 0, 1, 1, 0, 1, 1], 'yfam': '01', 'n': None, 'seed': 42, 'reshuffle': True, 'npseed': 5},
        {'t': 'corr', 'data': d, 'idx': [0], 'form': 'int', 'r': 0.8, 'lowvar': False, 'npseed': 7},
        {'t': 'labels', 'data': d, 'fam': 'list', 'relation': 'linear', 'tiefree': True, 'n': 3, 'p': [0.2, 0.3, 0.5]},
    ]


def run(ctx: Ctx):
    n = 30000 if ctx.thorough() else 5000
    evaluate(ctx, corpus() + [gen(ctx.rng, ctx.thorough()) for _ in range(n)])


def search(ctx: Ctx):
    sub = Ctx(ctx.prop, ctx.tier)
    sub.rng.seed(f'search:{ctx.seed}')
    evaluate(sub, [gen(sub.rng, True) for _ in range(3000)], oracle_only=True)
    return sub.oracle_failures
