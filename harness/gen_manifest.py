"""Regenerates MANIFEST.json from the table below (keeps the manifest valid and in one place)."""
import json
import os

HERE = os.path.dirname(os.path.dirname(os.path.abspath(__file__)))
LEVEL_NOTE = ('Trusted: Lean 4.33 kernel, axioms within {propext, Classical.choice, Quot.sound} (audited by #print axioms on every run; '
              'no sorry/native_decide/own axioms), Mathlib definitions where imported, the Python correspondence harness and the '
              'driver parsing. Modelled, not verified: numba/numpy/pandas/CPython/xxhash behaviour as listed in DESIGN §4.')

CHECKS = json.load(open(os.path.join(HERE, 'harness', 'checks.json'), encoding='utf-8'))   # per property: text, technique, design[, note]

NOT_YET = {}


def source_tie_sentence(pid):
    import glob, re, sys
    sys.path.insert(0, os.path.join(HERE, 'harness'))
    import src_sites
    anchors = src_sites.ANCHORS.get(pid, [])
    ns = sum(len(a['sites']) for a in anchors)
    f = os.path.join(HERE, 'lean', 'OutrankModel', 'Props', 'Src', f'{pid}.lean')
    nt = len(re.findall(r'^theorem ', open(f, encoding='utf-8').read(), flags=re.M)) if os.path.exists(f) else 0
    s = (f' SOURCE TIE (DESIGN §11.1, every run): the {len(anchors)} anchored functions are re-read with Python ast; their statement '
         'skeletons must equal the committed ones')
    if ns:
        s += (f', and {ns} decision / arithmetic expressions are translated into Gen/Src/{pid}.lean and re-proved equal to the '
              f"model's expressions by the {nt} bridge theorems of Props/Src/{pid}.lean (a changed operator, bound or constant breaks a "
              'theorem; an equivalent rewrite still checks)')
    else:
        s += ' (no translated expression sites for this property)'
    return s + '; a differing skeleton or failed bridge theorem is a broken tie handled as §2.3.'


def main():
    props = [json.loads(l) for l in open(os.path.join(HERE, 'properties.jsonl'))]
    checks = []
    na = []
    for p in props:
        pid = p['id']
        if pid in CHECKS:
            c = CHECKS[pid]
            checks.append({
                'property_id': pid,
                'quick_cmd': f'./check {pid} quick',
                'thorough_cmd': f'./check {pid} thorough',
                'evidence_file': f'evidence/{pid}.json',
                'replay_cmd_template': f'./check {pid} replay {{path}}',
                'engine': 'lean4-model+correspondence',
                'level_claimed': {'category': 'proof', 'text': c['text'].rstrip() + source_tie_sentence(pid), 'design_ref': c['design']},
                'level_note': c.get('note', LEVEL_NOTE),
                'technique': c['technique'],
            })
        else:
            na.append({'property_id': pid, 'reason': NOT_YET.get(pid, 'check not built yet in this round (planned, see DESIGN §5/§9); not claimed until its Lean model, theorems and tie exist')})
    m = {
        'version': 1,
        'setup_cmd': 'cd lean && lake build',
        'hooks': {
            'guard': 'OUTRANK_VERIF',
            'enable': 'no source hooks are needed: the harness wraps module attributes from outside; checks export OUTRANK_VERIF=1 for uniformity',
            'baseline_off_cmd': 'cd /repo && /venv/bin/python -m pytest -ra -q -p no:cacheprovider --timeout=900 --continue-on-collection-errors',
            'source_commits': [],
            'add_only': True,
        },
        'engines': [{
            'name': 'lean4-model+correspondence', 'path': 'lean/ + harness/ + check',
            'serves_properties': [c['property_id'] for c in checks],
            'kind_free_text': 'executable Lean 4 model + machine-checked theorems (lake build, #print axioms audit) tied to /repo by a differential correspondence harness / source translator',
        }],
        'checks': checks,
        'not_applicable': na,
        'notes': 'See DESIGN.md. KNOWN_FINDINGS.txt lists recorded findings and fixed defects.',
    }
    with open(os.path.join(HERE, 'MANIFEST.json'), 'w') as fh:
        json.dump(m, fh, indent=1)


if __name__ == '__main__':
    main()
