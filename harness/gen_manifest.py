"""Regenerates MANIFEST.json from the table below (keeps the manifest valid and in one place)."""
import json
import os

HERE = os.path.dirname(os.path.dirname(os.path.abspath(__file__)))
LEVEL_NOTE = ('Trusted: Lean 4.33 kernel, axioms within {propext, Classical.choice, Quot.sound} (audited by #print axioms on every run; '
              'no sorry/native_decide/own axioms), Mathlib definitions where imported, the Python correspondence harness and the '
              'driver parsing. Modelled, not verified: numba/numpy/pandas/CPython/xxhash behaviour as listed in DESIGN §4.')

CHECKS = {
    'C07': dict(
        text=('Theorems over an executable Lean model of prior_combinations_sample, for ALL histories (any length), list sizes, '
              'caps (changing, zero, > n) and presentation orders: returned ⊆ candidates, exactly min(cap,n) distinct, '
              'least-evaluated-first, spread ≤ 1 after every batch (fair_forever, by induction over the history), '
              'counter = number of selections (accounting). Tie: the real function is run on generated histories and '
              'must agree with the model call by call (returned order and whole counter); the Lean-checked spec predicates '
              'are evaluated on the implementation outputs.'),
        technique='Lean 4 proof (induction over call history) + differential correspondence harness',
        design='§5 C07'),
    'C15': dict(
        text=('Theorems over an executable Lean model of CountMinSketch (int32 cells with explicit wrap) parametric in an ARBITRARY '
              'hash, and of the bounded counter, for ALL update streams, depths >= 1 and widths: every cell holds exactly the weight '
              'hashed into it (cell_eq, invariant by induction over the stream), hence true weight <= query <= total and every row '
              'sums to the total (hypothesis: total < 2^31); counter never over-counts, tracks <= bound keys, exact while fewer than '
              'bound distinct values were seen. Tie: the real classes are run on generated streams (forced collisions) and the whole '
              'matrix, all queries and the counter contents must equal the model; real cms_hash locations are shipped to the model.'),
        technique='Lean 4 proof (representation invariant by induction over the stream) + differential correspondence harness',
        design='§5 C15'),
    'C01': dict(
        text=('Theorems (Lean 4 + Mathlib, over ℝ with Real.log) about an executable model of mutual_info_estimator_numba that is '
              'polymorphic in its arithmetic: for ALL equal-length vectors (any n >= 1, any codes, any joint partition) the plain '
              'estimator returns exactly the plug-in MI (estimator_eq_plugin), which is symmetric, >= 0 (Gibbs), 0 when a side is '
              'constant, <= min(H(Y),H(X)), and equals H(X) on (X,X). The same definitions run at Float in the driver; the tie '
              'compares the real njit function with them on generated pairs within a float32 rounding tolerance, and the '
              'Lean-checked spec (pluginL = miPlugin) is evaluated on the implementation outputs.'),
        technique='Lean 4 proof over ℝ (count-table closed form, Gibbs inequality) + differential correspondence harness',
        design='§5 C01'),
    'C02': dict(
        text=('Theorems over the same model: relabel_invariant (any maps injective on the occurring codes leave plain and corrected '
              'scores unchanged, for all vectors), dispatch_identical / dispatch_different (self-pair handling exactly when the '
              'vectors are element-wise identical), sum_test_unsound (why the old sum test broke it). Tie: real estimator vs model, '
              'with a 30% stream of equal-sum / equal-histogram non-identical pairs; oracle = invariance of the implementation '
              'under generated relabelings + the dispatch clause.'),
        technique='Lean 4 proof over ℝ (finset reindexing under injective relabeling) + differential correspondence harness',
        design='§5 C02'),
    'C03': dict(
        text=('Theorems: corrected_identity (score = H(Y*|X) − H(Y|X) for all Y ≠ X), corrected_const = 0, corrected_alldistinct = 0, '
              'corrected_self = H(X), for all vectors. PARTIAL: the ranking corollary (signal outranks independent noise for all '
              'seeds at n >= 4000) is statistical, false for adversarial noise; it is measured (minimum margin recorded in the '
              'evidence, failing only if the corrected margin is <= 0 on some seed), not proved. Tie: real estimator with the '
              'flag on vs model; name -> flag mapping checked through numba_mi.'),
        technique='Lean 4 proof over ℝ + differential correspondence harness; statistical corollary measured',
        design='§5 C03'),
    'C04': dict(
        text=('Theorems (core Lean) over a model of stratified_subsampling with an explicit uninitialised-cell memory model: for EVERY '
              'content of the uninitialised buffer the repaired code never reads an uninitialised or out-of-range cell and returns '
              'exactly the stated sample (subsample_safe); sampled rows are valid, distinct, per-value first-quota positions; the '
              'estimator always terminates (estimator_ok) and its score is a function of the sampled rows only (score_sample_only, any '
              'arithmetic); old_buffer_unsafe documents the pre-fix read. PARTIAL: that the native code performs exactly the modelled '
              'reads is observed, not proved: every case runs in fresh processes under MALLOC_PERTURB_ 0/85/170 (segfault, '
              'allocator-dependent values and out-of-sample dependence are oracle failures).'),
        technique='Lean 4 proof (memory-model refinement, list induction) + fresh-process differential harness under allocator perturbation',
        design='§5 C04'),
    'C14': dict(
        text=('Theorems over an executable model of HyperLogLogWCache parametric in the register count, warm-up capacity and an ARBITRARY '
              'hash: len_run_eq_spec (after ANY insertion sequence the size equals a stateless function of the value SET), hence exact '
              'while distinct <= W, duplicate-blind and order-independent in BOTH phases, and beyond W the size is the estimate of the '
              'registers left empty by the value set. PARTIAL: "within 2% up to 2^21" is a property of xxh32\'s distribution (false for '
              'adversarial values) and is measured, not proved. Tie: the real class with p/m/warmup_size/width overridden to small '
              'values is compared add by add (phase flag, size) with the model fed the real xxh32 digests; the class constants and the '
              'real-size sketch (exact to 2^18, duplicate at the boundary, measured error beyond) are checked against the property directly.'),
        technique='Lean 4 proof (state invariant by induction over the insertion sequence) + differential correspondence harness',
        design='§5 C14'),
}

NOT_YET = {}


def main():
    props = [json.loads(l) for l in open(os.path.join(HERE, 'properties.jsonl'))]
    checks = []
    na = []
    for p in props:
        pid = p['id']
        if pid in CHECKS:
            c = CHECKS[pid]
            checks.append({
                'property_id': pid,
                'quick_cmd': f'./check {pid} quick',
                'thorough_cmd': f'./check {pid} thorough',
                'evidence_file': f'evidence/{pid}.json',
                'replay_cmd_template': f'./check {pid} replay {{path}}',
                'engine': 'lean4-model+correspondence',
                'level_claimed': {'category': 'proof', 'text': c['text'], 'design_ref': c['design']},
                'level_note': c.get('note', LEVEL_NOTE),
                'technique': c['technique'],
            })
        else:
            na.append({'property_id': pid, 'reason': NOT_YET.get(pid, 'check not built yet in this round (planned, see DESIGN §5/§9); not claimed until its Lean model, theorems and tie exist')})
    m = {
        'version': 1,
        'setup_cmd': 'cd lean && lake build',
        'hooks': {
            'guard': 'OUTRANK_VERIF',
            'enable': 'no source hooks are needed: the harness wraps module attributes from outside; checks export OUTRANK_VERIF=1 for uniformity',
            'baseline_off_cmd': 'cd /repo && /venv/bin/python -m pytest -ra -q -p no:cacheprovider --timeout=900 --continue-on-collection-errors',
            'source_commits': [],
            'add_only': True,
        },
        'engines': [{
            'name': 'lean4-model+correspondence', 'path': 'lean/ + harness/ + check',
            'serves_properties': [c['property_id'] for c in checks],
            'kind_free_text': 'executable Lean 4 model + machine-checked theorems (lake build, #print axioms audit) tied to /repo by a differential correspondence harness / source translator',
        }],
        'checks': checks,
        'not_applicable': na,
        'notes': 'See DESIGN.md. KNOWN_FINDINGS.txt lists recorded findings and fixed defects.',
    }
    with open(os.path.join(HERE, 'MANIFEST.json'), 'w') as fh:
        json.dump(m, fh, indent=1)


if __name__ == '__main__':
    main()
