"""C18 – feature summary = per-feature median of label scores, sorted, normalised.
Tie: generated triplet tables are written to `pairwise_ranks.tsv` exactly as task_ranking.py writes it and processed by
the real `outrank_task_result_summary`; `feature_singles.tsv` / `feature_singles_aggregated.tsv` are read back and diffed
with the Lean model (`C18 summary`, `C18 agg`).
Oracle (on the IMPLEMENTATION's files): (1) the Lean-checked spec `C18 check` / `C18 aggcheck` (proved sound:
check = true -> the output is a descending rearrangement of the table the theorems are about), and (2) an independent
recomputation of every clause with exact fractions, from the generator's own knowledge of which name is the label and
which names are interactions of which constituents (NOT through the model's string parsing).
Additional family E2E-summary (harness/corr_E2E.py `evaluate_summary`, DESIGN §11.2): generated CSV files through the real
`outrank_task_conduct_ranking` FOLLOWED BY the real `outrank_task_result_summary`; `feature_singles.tsv` vs the composed Lean
model `Pipeline.summaryOfFile` (C18 `summary` on the rows of `Pipeline.rankFile`'s table); its theorems
(Props/PipelineSummary.lean) are built and audited with this check (`EXTRA_PROPS`)."""
from __future__ import annotations

import csv
import hashlib
import logging
import math
import os
import shutil
import tempfile
from fractions import Fraction
from types import SimpleNamespace

import corr_E2E
from vp_common import Atom, Ctx, line, run_driver

PROP = 'C18'
EXTRA_PROPS = ['PipelineSummary']   # Props/PipelineSummary.lean: built, audited and counted with C18's obligations
GEN_DEPENDENT = True                # the composed model scores with the dispatch table regenerated from the source (Gen/Dispatch.lean)


def translate(ctx):
    """the end-to-end model uses C05's regenerated dispatch table: re-read it from the tree under test"""
    import c05_translate
    from vp_common import LEAN_DIR, REPO
    problems, _ = c05_translate.translate_repo(REPO, os.path.join(LEAN_DIR, 'OutrankModel', 'Gen', 'Dispatch.lean'))
    ctx.tie_broken.extend(problems)


RULE = ('triplet tables over 1..25 features (thorough: ..60) from one PRNG: plain and annotated names `f-(card; cov)`, label plain or '
        'annotated, 1..4 score rows per feature in one or both orientations, (label,label) rows, rows between non-label features, '
        'interaction features `a AND b[ AND c]`, scores = dyadic rationals (negative, ties, all-equal) or 17-digit floats, rows in '
        'ascending-score (as task_ranking writes them) or random order, heuristic names with/without "MI", interaction order 1..3; '
        'family `retyped` = legitimate plain names that read_csv would reinterpret (NA, null, 007, 1e5, True, digits-only tables). '
        'A separate stream violates the name preconditions (label containing "-", a feature named `label-x`, constituents with '
        '"-" or ending in " AND", plain names containing "AND"): there only model = code is compared and the cases are counted as '
        'excluded regions. Non-trivial = well-formed table with >= 2 features, >= 1 feature with >= 2 score rows and two different '
        'medians; distinct = distinct (label, heuristic, order, rows). ' + corr_E2E.RULE_E2ES)
ASSUMPTIONS = ['names must be well-formed (Props/C18.lean `WF`, `constituents_render`): the label contains no "-", no other name has the label as '
               'its part before the first "-", constituents of interactions contain neither "-" nor a space, non-interaction names do not contain "AND"',
               'min < max for the normalisation clause (the code computes 0/0 = NaN when all medians are equal; observed and counted, not judged)',
               'pandas sort_values (quicksort) is not stable: the order among equal scores is unspecified, tied runs are compared as multisets',
               'scores are finite; dyadic scores with short decimal expansions are parsed exactly by read_csv (medians then compared exactly); '
               '17-digit floats are compared with tolerance 1e-12 (read_csv\'s default float parser is not correctly rounded)',
               'pandas read_csv/to_csv/groupby.median/sort_values and numpy.median are externals (modelled, exercised by the tie)'
               ] + corr_E2E.ASSUMPTIONS_E2ES

HEUR = ['MI-numba-randomized', 'AMI', 'surrogate-SGD', 'max-value-coverage', 'correlation-Pearson', 'MI', 'Constant', 'surrogate-MI-x']
PLAIN = ['user_id', 'country', 'device_type', 'geo.city', 'Ünïcode', 'hour_of_day', 'x y', 'q"q', 'MIfeature', 'a_tr_log', 'ad-size',
         'site-id-hash', 'Label', 'label2', 'xlabel', 'tab\there', "it's", 'f,g', 'ALL_CAPS', 'a.b.c']
RETYPED = ['NA', 'null', 'nan', 'NaN', 'None', 'N/A', 'n/a', 'NULL', '<NA>', '#N/A', '1e5', '007', '12', '1.0', 'True', 'False', 'inf',
           '0x1A', ' 5', '3 ', '0', '1', '2', '3', '44', '1_000', '#NA']
LABELS = ['label', 'y', 'target_col', 'click', 'L', 'Churn?', 'y+', 'clicked(7d)', 'a|b', 'label.1', 'is_fraud*', '[y]', 'y$', '^y', 'cost{usd}', 'back\\slash']


def is_mi(h):
    return 'MI' in h


def dyadic(rng, lo=-2 ** 14, hi=2 ** 14):
    j = rng.choice([0, 1, 2, 3, 5, 8, 10])
    return rng.randint(lo, hi) / 2 ** j


def annotate(rng, n):
    return f'{n}-({rng.randint(1, 5000)}; {rng.choice([100, 100, 99, 57, 3, 0])})'


def gen_case(rng, thorough=False, family=None):
    family = family or rng.choice(['wf'] * 6 + ['retyped'] * 2 + ['floats'] + ['violate'] * 2)
    label = rng.choice(LABELS)
    annotated = rng.random() < 0.5
    io = rng.choice([1, 2, 2, 3])
    heuristic = rng.choice(HEUR)
    nf = rng.choice([1, 1, 2, 2, 3, 4, 5, 8, 13, 25] + ([40, 60] if thorough else []))
    notes = []
    if family == 'retyped':
        annotated = rng.random() < 0.2
        sub = rng.choice(['mixed', 'digits', 'na'])
        if sub == 'digits':
            label = rng.choice(['0', '7', '100'])
            base = [str(k) for k in rng.sample(range(1, 400), nf) if str(k) != label] or ['5']
        elif sub == 'na':
            base = rng.sample(RETYPED[:10], min(nf, 10))
        else:
            base = rng.sample(RETYPED, min(nf, len(RETYPED)))
    else:
        pool = [f'f{k}' for k in range(max(nf, 30))] + PLAIN
        base = [n for n in rng.sample(pool, min(nf, len(pool))) if n != label]
        if not base:
            base = ['f0']
    simple = [n for n in base if '-' not in n and ' ' not in n and 'AND' not in n] or ['g0', 'g1']
    if len(simple) < 2:
        simple = simple + ['g0', 'g1']
    inter = {}           # table name -> constituents, as the generator built them
    nint = rng.choice([0, 1, 2, 4, 8]) if (io > 1 or rng.random() < 0.2) else 0
    names = []           # (table name)
    lab_name = annotate(rng, label) if annotated else label
    for n in base:
        names.append(annotate(rng, n) if annotated else n)
    for _ in range(nint):
        k = rng.choice([2, 2, 2, 3])
        cs = rng.sample(simple, min(k, len(simple)))
        nm = ' AND '.join(cs)
        nm = annotate(rng, nm) if annotated else nm
        if nm not in inter and nm not in names:
            inter[nm] = cs
            names.append(nm)
    viol = None
    if family == 'violate':
        viol = rng.choice(['label-dash', 'feature-label-prefix', 'two-label-names', 'constituent-dash', 'constituent-ends-AND',
                           'plain-contains-AND', 'empty-name', 'label-absent'])
        if viol == 'label-dash':
            label = rng.choice(['my-label', 'label-1', '-y'])
            lab_name = annotate(rng, label) if annotated else label
        elif viol == 'feature-label-prefix':
            names.append(label + '-x')
        elif viol == 'two-label-names':
            names.append(label + '-(2; 100)' if not annotated else label)
        elif viol == 'constituent-dash':
            nm = 'my-f AND ' + simple[0]
            inter[nm] = ['my-f', simple[0]]
            names.append(nm)
            io = max(io, 2)
        elif viol == 'constituent-ends-AND':
            nm = 'x AND AND ' + simple[0]
            inter[nm] = ['x AND', simple[0]]
            names.append(nm)
            io = max(io, 2)
        elif viol == 'plain-contains-AND':
            names.append(rng.choice(['BRAND', 'ANDROID_version', 'xANDy']))
            io = max(io, 2)
        elif viol == 'empty-name':
            names.append('')
    # scores
    mode = 'floats' if family == 'floats' else rng.choice(['dyadic', 'dyadic', 'ties', 'allequal', 'negative', 'tiny-range'])
    tie_pool = [dyadic(rng, -8, 8) for _ in range(3)]
    const = dyadic(rng)

    def score():
        if mode == 'floats':
            return rng.uniform(-1, 1)
        if mode == 'ties':
            return rng.choice(tie_pool)
        if mode == 'allequal':
            return const
        if mode == 'negative':
            return -abs(dyadic(rng)) - 1
        if mode == 'tiny-range':
            return const + rng.choice([0, 1, 2, 3]) / 2 ** 10
        return dyadic(rng)
    rows = []
    dup_all = rng.random() < 0.5          # as the ranking task writes them: both orientations with the same score
    for n in names:
        if viol == 'label-absent':
            break
        for _ in range(rng.choice([1, 1, 1, 2, 3, 4])):
            s = score()
            o = rng.random()
            if dup_all or o < 0.3:
                rows.append([n, lab_name, s])
                rows.append([lab_name, n, s])
            elif o < 0.65:
                rows.append([n, lab_name, s])
            else:
                rows.append([lab_name, n, s])
    if rng.random() < 0.5:
        for _ in range(rng.choice([1, 1, 2])):
            rows.append([lab_name, lab_name, score()])
    if viol == 'two-label-names':
        rows.append([names[-1], lab_name, score()])
    others = names if len(names) >= 1 else ['z']
    for _ in range(rng.choice([0, 2, 5, 10]) if others else 0):
        a, b = rng.choice(others), rng.choice(others)
        s = score()
        rows.append([a, b, s])
        if rng.random() < 0.5:
            rows.append([b, a, s])
    if rng.random() < 0.6:
        rows.sort(key=lambda r: r[2])      # task_ranking: triplets.sort_values(by=['Score'])
    else:
        rng.shuffle(rows)
    return {'family': family, 'violates': viol, 'label': label, 'label_name': lab_name, 'heuristic': heuristic, 'io': io,
            'rows': rows, 'inter': inter, 'exact': mode != 'floats', 'mode': mode}


# ---------------------------------------------------------------------------------------------
# the real code

def read_table(path):
    if not os.path.exists(path):
        return None
    with open(path, newline='', encoding='utf-8') as fh:
        recs = list(csv.reader(fh, delimiter='\t', quotechar='"'))
    out = []
    for r in recs[1:]:
        if len(r) != 2:
            continue
        out.append([r[0], float(r[1]) if r[1] != '' else float('nan')])
    return out


def run_impl(case):
    import pandas as pd
    from outrank.task_summary import outrank_task_result_summary
    # every second case re-uses ONE output folder of this process (as repeated runs into the default `--output_folder` do): a summary
    # must be computed from the pairwise_ranks.tsv that is in the folder NOW
    global _SHARED, _NCALL
    _NCALL += 1
    shared = (_NCALL // 3) % 2 == 1              # runs of three consecutive summaries into the same folder
    if shared:
        if _SHARED is None:
            _SHARED = tempfile.mkdtemp(prefix='c18_shared_')
            import atexit
            atexit.register(shutil.rmtree, _SHARED, True)
        d = _SHARED
        for f in os.listdir(d):
            os.unlink(os.path.join(d, f))
    else:
        d = tempfile.mkdtemp(prefix='c18_')
    try:
        pd.DataFrame(case['rows'], columns=['FeatureA', 'FeatureB', 'Score']).to_csv(
            os.path.join(d, 'pairwise_ranks.tsv'), sep='\t', index=False)
        args = SimpleNamespace(output_folder=d, label_column=case['label'], heuristic=case['heuristic'], tldr=False,
                               interaction_order=case['io'])
        logging.disable(logging.CRITICAL)
        try:
            if _NCALL % 5 == 0:
                # the SAME rank table was summarised before with other arguments (another heuristic name, MI-type or not, another
                # interaction order): the summary asked for now is a function of the table and of THESE arguments
                os.utime(os.path.join(d, 'pairwise_ranks.tsv'), (1_600_000_000, 1_600_000_000))
                other = 'surrogate-SGD' if is_mi(case['heuristic']) else 'MI-numba-randomized'
                try:
                    outrank_task_result_summary(SimpleNamespace(output_folder=d, label_column=case['label'], heuristic=other, tldr=False,
                                                                interaction_order=max(case['io'], 2)))
                except Exception:          # noqa: BLE001 – the earlier call is history only
                    pass
            outrank_task_result_summary(args)
        except Exception as e:          # noqa: BLE001
            return {'outcome': f'raises:{type(e).__name__}', 'msg': str(e)[:200]}
        finally:
            logging.disable(logging.NOTSET)
        return {'outcome': 'ok', 'singles': read_table(os.path.join(d, 'feature_singles.tsv')),
                'agg': read_table(os.path.join(d, 'feature_singles_aggregated.tsv'))}
    finally:
        if not shared:
            shutil.rmtree(d, ignore_errors=True)


_SHARED, _NCALL = None, 0


# ---------------------------------------------------------------------------------------------
# independent recomputation of the property (exact fractions)

def fmedian(vals):
    s = sorted(vals)
    n = len(s)
    return s[n // 2] if n % 2 else (s[n // 2 - 1] + s[n // 2]) / 2


def spec_tables(case):
    """(expected medians {name: Fraction}, expected final {name: Fraction} or None when degenerate, expected aggregated or None)"""
    L = case['label_name']
    sc = {}
    for a, b, s in case['rows']:
        if a == L:
            sc.setdefault(b, []).append(Fraction(s))
        elif b == L:
            sc.setdefault(a, []).append(Fraction(s))
    med = {f: fmedian(v) for f, v in sc.items()}
    final = med
    if is_mi(case['heuristic']) and med:
        mn, mx = min(med.values()), max(med.values())
        final = {f: (m - mn) / (mx - mn) for f, m in med.items()} if mn < mx else None
    agg = None
    if case['io'] > 1 and final is not None:
        st = {}
        for f, cs in case['inter'].items():
            if f in final:
                for c in cs:
                    st.setdefault(c, []).append(final[f])
        agg = {c: fmedian(v) for c, v in st.items()}
    return med, final, agg


def close(v, e, tol):
    return abs(Fraction(v) - e) <= tol * (1 + abs(e))


def tolerance(case, med):
    if case['exact']:
        return Fraction(1, 10 ** 12) if is_mi(case['heuristic']) else Fraction(0)
    t = Fraction(1, 10 ** 12)
    if is_mi(case['heuristic']) and med:
        rng_ = max(med.values()) - min(med.values())
        if 0 < rng_ < 1:
            t = t / rng_
    return t


def frows(case):
    return [[a, b, Fraction(s)] for a, b, s in case['rows']]


def ftable(t):
    return [[n, Fraction(v)] for n, v in t]


def has_nan(t):
    return any(math.isnan(v) or math.isinf(v) for _, v in t)


def short(case):
    r = case['rows']
    return (f'label={case["label"]!r} (in the table: {case["label_name"]!r}) heuristic={case["heuristic"]!r} order={case["io"]} '
            f'rows={r[:8]}{"…" if len(r) > 8 else ""}')


def judge(case, impl, rep_check, rep_aggcheck):
    """the property's clauses on the implementation's output; returns (key, description) or None"""
    med, final, agg = spec_tables(case)
    tol = tolerance(case, med)
    if impl['outcome'] != 'ok':
        return (impl['outcome'], f'{short(case)}: outrank_task_result_summary raised {impl["outcome"][7:]}: {impl.get("msg", "")}')
    out = impl['singles']
    if out is None:
        return ('no-file', f'{short(case)}: feature_singles.tsv was not written')
    names = [n for n, _ in out]
    if len(set(names)) != len(names) or set(names) != set(med):
        extra = sorted(set(names) - set(med))
        miss = sorted(set(med) - set(names))
        dup = sorted({n for n in names if names.count(n) > 1})
        return ('each-once', f'{short(case)}: features scored against the label = {sorted(med)}; feature_singles.tsv lists {names} '
                f'(missing {miss}, unexpected {extra}, repeated {dup})')
    if final is None:
        return None          # degenerate normalisation: 0/0, observed only
    for n, v in out:
        if math.isnan(v) or not close(v, final[n], tol):
            what = 'normalised median' if is_mi(case['heuristic']) else 'median'
            return ('normalised' if is_mi(case['heuristic']) else 'median',
                    f'{short(case)}: feature {n!r}: {what} of its label scores is {float(final[n])!r} ({final[n]}), file has {v!r}')
    for (n1, v1), (n2, v2) in zip(out, out[1:]):
        if not v1 >= v2:
            return ('sorted', f'{short(case)}: feature_singles.tsv is not in descending score order: {n1!r}={v1!r} before {n2!r}={v2!r}')
    if is_mi(case['heuristic']) and out:
        if out[0][1] != 1.0 or out[-1][1] != 0.0:
            return ('normalised', f'{short(case)}: best feature has {out[0][1]!r} (must be 1), worst {out[-1][1]!r} (must be 0)')
        if case['exact']:
            d = dict(out)
            srt = sorted(med, key=lambda f: med[f])
            for f, g in zip(srt, srt[1:]):
                if med[f] < med[g] and not d[f] < d[g]:
                    return ('normalised', f'{short(case)}: normalisation does not preserve the order: medians {f!r}={med[f]} < {g!r}={med[g]} '
                            f'but normalised {d[f]!r} vs {d[g]!r}')
    if rep_check is not None and rep_check != Atom('true'):
        return ('lean-spec', f'{short(case)}: the Lean-checked spec `C18 check` rejects feature_singles.tsv = {out[:10]}')
    if case['io'] > 1:
        ag = impl['agg']
        if ag is None:
            return ('aggregated', f'{short(case)}: interaction order {case["io"]} but feature_singles_aggregated.tsv was not written')
        an = [n for n, _ in ag]
        if len(set(an)) != len(an) or set(an) != set(agg):
            return ('aggregated', f'{short(case)}: constituents of the scored interactions = {sorted(agg)}; aggregated table lists {an}')
        for n, v in ag:
            if math.isnan(v) or not close(v, agg[n], tol * 4):
                return ('aggregated', f'{short(case)}: constituent {n!r}: median score of its interactions is {float(agg[n])!r}, aggregated table has {v!r}')
        if rep_aggcheck is not None and rep_aggcheck != Atom('true'):
            return ('lean-spec-agg', f'{short(case)}: the Lean-checked spec `C18 aggcheck` rejects feature_singles_aggregated.tsv = {ag[:10]}')
    return None


def corr(case, impl, m_sum, m_agg, tol):
    """model vs implementation (also outside the preconditions); returns description or None"""
    if impl['outcome'] != 'ok':
        return f'{short(case)}: implementation {impl["outcome"]}, model returns {m_sum if isinstance(m_sum, Atom) else m_sum[:6]}'
    for what, mt, it in (('feature_singles', m_sum, impl['singles']), ('aggregated', m_agg, impl['agg'])):
        if mt is None:
            continue
        if it is None:
            return f'{short(case)}: {what}: file missing'
        if isinstance(mt, Atom):        # degenerate: the code's 0/0
            if not all(math.isnan(v) for _, v in it) or (not it and what == 'feature_singles'):
                return f'{short(case)}: {what}: model says all-NaN (max = min), implementation wrote {it[:6]}'
            continue
        md = {}
        for n, v in mt:
            md[n] = Fraction(v)
        if len(md) != len(mt) or len(it) != len(mt) or sorted(n for n, _ in it) != sorted(md):
            return f'{short(case)}: {what}: names differ: model {[n for n, _ in mt][:12]} vs implementation {[n for n, _ in it][:12]}'
        for n, v in it:
            if math.isnan(v) or not close(v, md[n], tol * (4 if what == 'aggregated' else 1)):
                return f'{short(case)}: {what}: {n!r}: model {md[n]} vs implementation {v!r}'
        if what == 'feature_singles' and any(not a[1] >= b[1] for a, b in zip(it, it[1:])):
            return f'{short(case)}: {what}: implementation output not descending'
    return None


def evaluate_raw(ctx: Ctx, cases, oracle_only=False, record=True):
    """returns per case (oracle verdict or None, correspondence description or None)"""
    impls = [run_impl(c) for c in cases]
    req, spans = [], []
    for c, im in zip(cases, impls):
        med, _, _ = spec_tables(c)
        tol = tolerance(c, med)
        L, H, R = c['label'], c['heuristic'], frows(c)
        idx = {}
        allnames = sorted({x for a, b, _ in c['rows'] for x in (a, b)})
        idx['wf'] = len(req); req.append(line(Atom(PROP), Atom('wf'), L, c['label_name'], R))
        idx['parse'] = len(req); req.append(line(Atom(PROP), Atom('parse'), allnames))
        if not oracle_only:
            idx['sum'] = len(req); req.append(line(Atom(PROP), Atom('summary'), L, H, R))
            if c['io'] > 1:
                idx['agg'] = len(req); req.append(line(Atom(PROP), Atom('agg'), L, H, R))
        if im['outcome'] == 'ok' and im['singles'] is not None and not has_nan(im['singles']) and not c['violates']:
            idx['check'] = len(req); req.append(line(Atom(PROP), Atom('check'), L, H, tol, R, ftable(im['singles'])))
            if c['io'] > 1 and im['agg'] is not None and not has_nan(im['agg']):
                idx['aggcheck'] = len(req); req.append(line(Atom(PROP), Atom('aggcheck'), L, H, tol * 4, R, ftable(im['agg'])))
        spans.append(idx)
    rep = run_driver(req)
    res = []
    for c, im, idx in zip(cases, impls, spans):
        med, final, agg = spec_tables(c)
        tol = tolerance(c, med)
        verdict = None
        cdesc = None
        # do the generated names meet the theorems' preconditions?  (Lean `WF`; the code's parse of every name = the generator's intent)
        allnames = sorted({x for a, b, _ in c['rows'] for x in (a, b)})
        pre_ok = rep[idx['wf']] == Atom('true')
        for n, (isint, cs) in zip(allnames, rep[idx['parse']]):
            want = c['inter'].get(n)
            if (isint == Atom('true')) != (want is not None) or (want is not None and list(cs) != list(want)):
                pre_ok = False
        im['pre_ok'] = pre_ok
        im['lean_checks'] = ('check' in idx) + ('aggcheck' in idx)
        if not c['violates'] and pre_ok:
            verdict = judge(c, im, rep[idx['check']] if 'check' in idx else None, rep[idx['aggcheck']] if 'aggcheck' in idx else None)
            # a degenerate table (all medians equal under an MI heuristic) must at least be a NaN column, not a crash / wrong rows
        if not oracle_only:
            cdesc = corr(c, im, rep[idx['sum']], rep[idx['agg']] if 'agg' in idx else None, tol)
        res.append((verdict, cdesc, im, (med, final, agg)))
    return res


def case_key(c):
    return hashlib.sha256(repr((c['label'], c['heuristic'], c['io'], c['rows'])).encode()).hexdigest()[:16]


def strip(c):
    return {k: v for k, v in c.items() if not k.startswith('_')}


def shrink(ctx, case, key):
    """greedy row removal while the same oracle clause keeps failing (bounded)"""
    cur = strip(case)
    budget = 60
    step = max(1, len(cur['rows']) // 2)
    while step >= 1 and budget > 0:
        i = 0
        changed = False
        while i < len(cur['rows']) and budget > 0:
            cand = {**cur, 'rows': cur['rows'][:i] + cur['rows'][i + step:]}
            budget -= 1
            if cand['rows']:
                v = evaluate_raw(ctx, [cand], oracle_only=True)[0][0]
                if v is not None and v[0] == key:
                    cur = cand
                    changed = True
                    continue
            i += step
        if not changed or step == 1:
            step //= 2
    return cur


def evaluate(ctx: Ctx, cases, oracle_only=False):
    # in slices: once a dozen failing inputs are on record the rest of the family adds nothing, and a change that leaks state between
    # calls makes every further call slower (seeded change C18-K: quadratic)
    for at in range(0, len(cases), 250):
        _evaluate(ctx, cases[at:at + 250], oracle_only)
        if len(ctx.oracle_failures) >= 12 and at + 250 < len(cases):
            ctx.notes.append(f'family stopped after {at + 250} of {len(cases)} cases: {len(ctx.oracle_failures)} failing inputs already on record')
            break


def _evaluate(ctx: Ctx, cases, oracle_only=False):
    res = evaluate_raw(ctx, cases, oracle_only)
    seen_keys = ctx.__dict__.setdefault('_c18_seen_keys', set())
    for c, (verdict, cdesc, im, (med, final, agg)) in zip(cases, res):
        ctx.evaluations += 1
        ctx.count('family:' + c['family'])
        ctx.count('heuristic:' + ('MI-type' if is_mi(c['heuristic']) else 'other'))
        ctx.count('order:%d' % c['io'])
        ctx.count('scores:' + c.get('mode', '?'))
        nfeat = len(med)
        ctx.count('features:' + ('0' if nfeat == 0 else '1' if nfeat == 1 else '2-5' if nfeat <= 5 else '6-25' if nfeat <= 25 else '>25'))
        if c['inter']:
            ctx.count('with-interactions')
        ctx.count('lean-spec-ops-on-implementation-output', im['lean_checks'])
        if c['violates']:
            ctx.count('excluded:WF-violated:' + c['violates'] + ('' if im['outcome'] == 'ok' else ':' + im['outcome']) +
                      (' [preconditions happen to hold]' if im['pre_ok'] else ''))
        elif not im['pre_ok']:
            ctx.count('excluded:generated names miss a precondition by accident')
        elif final is None:
            ctx.count('excluded:max=min under MI heuristic (NaN column observed)' if im['outcome'] == 'ok' and im['singles'] and
                      all(math.isnan(v) for _, v in im['singles']) else 'excluded:max=min under MI heuristic (other outcome)')
        else:
            rows_per = {}
            L = c['label_name']
            for a, b, _ in c['rows']:
                if a == L or b == L:
                    f = b if a == L else a
                    rows_per[f] = rows_per.get(f, 0) + 1
            if nfeat >= 2 and any(v >= 2 for v in rows_per.values()) and len(set(med.values())) >= 2:
                ctx.nontrivial.add(case_key(c))
        if not oracle_only:
            ctx.traces += 1
            if cdesc is not None:
                ctx.corr_fail('summary', cdesc, strip(c))
        if verdict is not None:
            key, desc = verdict
            small = strip(c)
            if key not in seen_keys and len(ctx.oracle_failures) < 12:
                seen_keys.add(key)
                small = shrink(ctx, c, key)
                v2 = evaluate_raw(ctx, [small], oracle_only=True)[0][0]
                if v2 is not None and v2[0] == key:
                    desc = v2[1]
                else:
                    small = strip(c)
            ctx.oracle_fail(key, desc, small)
        if im['outcome'] == 'ok' and im['singles']:
            ctx.sample({'label': c['label'], 'heuristic': c['heuristic'], 'order': c['io'], 'rows': c['rows'][:6],
                        'feature_singles': im['singles'][:5], 'aggregated': (im['agg'] or [])[:4]})


def corpus():
    def mk(label, lab_name, heuristic, io, rows, inter=None, family='wf'):
        return {'family': family, 'violates': None, 'label': label, 'label_name': lab_name, 'heuristic': heuristic, 'io': io,
                'rows': rows, 'inter': inter or {}, 'exact': True, 'mode': 'corpus'}
    return [
        # F16: legitimate plain names that read_csv reinterprets
        mk('label', 'label', 'MI-numba-randomized', 1, [['NA', 'label', 1.0], ['label', 'NA', 1.0], ['b', 'label', 0.5]], family='retyped'),
        mk('0', '0', 'surrogate-SGD', 1, [['1', '0', 0.25], ['0', '1', 0.25], ['2', '0', 0.75], ['0', '0', 1.0]], family='retyped'),
        mk('y', 'y', 'AMI', 1, [['null', 'y', 0.5], ['007', 'y', 0.25], ['1e5', 'y', 0.125], ['True', 'y', 1.0]], family='retyped'),
        # annotated names, both orientations, interactions
        mk('label', 'label-(2; 100)', 'surrogate-SGD', 2,
           [['a AND b-(3; 100)', 'label-(2; 100)', 1.0], ['label-(2; 100)', 'a AND b-(3; 100)', 1.0], ['b AND c-(9; 100)', 'label-(2; 100)', 0.5],
            ['a-(4; 99)', 'label-(2; 100)', 0.25], ['a-(4; 99)', 'label-(2; 100)', -0.75], ['label-(2; 100)', 'label-(2; 100)', 2.0],
            ['a-(4; 99)', 'b AND c-(9; 100)', 7.0]],
           inter={'a AND b-(3; 100)': ['a', 'b'], 'b AND c-(9; 100)': ['b', 'c']}),
        mk('label', 'label', 'MI-numba-randomized', 1, [['a', 'label', 1.0], ['a', 'label', 3.0], ['b', 'label', -2.0], ['c', 'label', 0.5], ['c', 'label', 0.5]]),
    ]


def evaluate_shards(ctx: Ctx, specs):
    """handle_interaction_order called directly on a summary frame that a library caller assembled from several shards with
    pd.concat (row labels repeat): the aggregated table still gives, per constituent, the median score of the interactions it
    takes part in.  Scores are multiples of 1/8 (medians exact)."""
    import random

    import pandas as pd
    from outrank.task_summary import handle_interaction_order
    for spec in specs:
        r = random.Random(f'shards:{spec["seed"]}')
        base = r.sample(['a', 'b', 'c', 'd', 'e', 'BRAND', 'x y', 'é'], spec['k'])
        h = spec['heuristic']
        shards, rows = [], []
        for _ in range(spec['shards']):
            part = []
            for _ in range(r.randint(1, 5)):
                cs = r.sample(base, min(len(base), r.choice([1, 2, 2, 3])))
                part.append((' AND '.join(cs), r.randint(-16, 40) / 8))
            rows += part
            shards.append(pd.DataFrame({'Feature': [p[0] for p in part], f'Score {h}': [p[1] for p in part]}))
        df = pd.concat(shards, ignore_index=(spec['index'] == 'fresh'))
        want = {}
        for name, sc in rows:
            if 'AND' in name:
                for c in name.split(' AND '):
                    want.setdefault(c, []).append(Fraction(sc))
        want = {c: fmedian(v) for c, v in want.items()}
        ctx.evaluations += 1
        ctx.count('interaction-summary-of-concatenated-shards:' + spec['index'])
        d = tempfile.mkdtemp(prefix='c18s_')
        try:
            logging.disable(logging.CRITICAL)
            try:
                handle_interaction_order(df, d, h, 2)
            except Exception as e:          # noqa: BLE001
                ctx.oracle_fail('agg-raises', f'handle_interaction_order on {len(df)} rows from {spec["shards"]} concatenated shards (row labels {list(df.index)}) raised '
                                f'{type(e).__name__}: {e}', {'shards_case': spec})
                continue
            finally:
                logging.disable(logging.NOTSET)
            path = os.path.join(d, 'feature_singles_aggregated.tsv')
            got = {}
            for rec in (read_table(path) or []):
                got[rec[0]] = Fraction(rec[1])
            if got != want:
                bad = next((c for c in want if got.get(c) != want[c]), next(iter(got), None))
                ctx.oracle_fail('agg-median', f'handle_interaction_order on the frame {rows} assembled from {spec["shards"]} shards with pd.concat (row labels '
                                f'{list(df.index)}): constituent {bad!r} gets {float(got[bad]) if bad in got else None}, the median of its interactions is '
                                f'{float(want[bad]) if bad in want else None}', {'shards_case': spec})
        finally:
            shutil.rmtree(d, ignore_errors=True)


def evaluate_cli_summary(ctx: Ctx, specs):
    """the summary through the real command line (`python -m outrank --task ranking_summary …`, fresh process) on an output folder
    that an earlier ranking run left behind – with its `arguments.json` naming ANOTHER label and heuristic: the files written are
    the summary of the rank table under the options given on THIS command line (explicit options, also when they equal the
    defaults)."""
    import json
    import random
    import subprocess
    import sys

    from vp_common import REPO
    for spec in specs:
        r = random.Random(f'cli:{spec["seed"]}')
        feats = r.sample(['f1', 'f2', 'f3', 'zone', 'age'], spec['k'])
        label, heur = spec['label'], spec['heuristic']
        rows = []
        for f in feats:
            for _ in range(r.randint(1, 3)):
                sc = r.randint(-8, 40) / 8
                rows += [[f, label, sc], [label, f, sc]]
        for a in feats:
            for b in feats:
                rows.append([a, b, r.randint(0, 16) / 8])
        case = {'label': label, 'label_name': label, 'heuristic': heur, 'io': 1, 'rows': rows, 'inter': {}, 'exact': True}
        med, final, _ = spec_tables(case)
        ctx.evaluations += 1
        ctx.count('cli-ranking_summary-on-a-folder-with-arguments.json')
        d = tempfile.mkdtemp(prefix='c18cli_')
        try:
            import pandas as pd
            pd.DataFrame(rows, columns=['FeatureA', 'FeatureB', 'Score']).to_csv(os.path.join(d, 'pairwise_ranks.tsv'), sep='\t', index=False)
            stale = {'task': 'ranking', 'label_column': feats[0], 'heuristic': 'surrogate-SGD' if is_mi(heur) else 'MI-numba-randomized',
                     'interaction_order': 1, 'output_folder': d, 'data_path': 'x', 'tldr': 'False'}
            with open(os.path.join(d, 'arguments.json'), 'w') as fh:
                json.dump(stale, fh)
            env = dict(os.environ, PYTHONPATH=REPO)
            p = subprocess.run([sys.executable, '-m', 'outrank', '--task', 'ranking_summary', '--data_path', 'x', '--output_folder', d,
                                '--label_column', label, '--heuristic', heur, '--tldr', 'False'], cwd=d, env=env,
                               stdout=subprocess.PIPE, stderr=subprocess.STDOUT, timeout=600)
            show = (f'`--task ranking_summary --label_column {label} --heuristic {heur}` on a folder whose arguments.json (from an earlier ranking run) '
                    f'names label {stale["label_column"]!r} and heuristic {stale["heuristic"]!r}; rank table: {len(rows)} rows over {feats} and {label!r}')
            path = os.path.join(d, 'feature_singles.tsv')
            if not os.path.exists(path):
                ctx.oracle_fail('cli-summary-missing', f'{show}: no feature_singles.tsv was written (exit {p.returncode}): {p.stdout.decode("utf-8", "replace")[-300:]}',
                                {'cli_summary': spec})
                continue
            with open(path, newline='', encoding='utf-8') as fh:
                recs = list(csv.reader(fh, delimiter='\t'))
            header, body = recs[0], [x for x in recs[1:] if len(x) == 2]
            got = {x[0]: Fraction(float(x[1])) for x in body}
            want = final if final is not None else med
            bad = None
            if header != ['Feature', f'Score {heur}']:
                bad = f'header {header}, expected ["Feature", "Score {heur}"]'
            elif set(got) != set(want):
                bad = f'features listed {sorted(got)}, the features scored against {label!r} are {sorted(want)}'
            else:
                for f in want:
                    if not close(got[f], want[f], Fraction(1, 10 ** 9)):
                        bad = f'feature {f!r} has {float(got[f])!r}, the {"normalised " if final is not None and is_mi(heur) else ""}median of its label scores is {float(want[f])!r}'
                        break
            if bad:
                ctx.oracle_fail('cli-summary', f'{show}: {bad}', {'cli_summary': spec})
        finally:
            shutil.rmtree(d, ignore_errors=True)


def cli_summary_specs(rng, n):
    return [{'seed': rng.randrange(10 ** 9), 'k': rng.choice([2, 3, 4]), 'label': rng.choice(['label', 'label', 'y']),
             'heuristic': rng.choice(['MI-numba-randomized', 'MI-numba-randomized', 'AMI', 'surrogate-SGD'])} for _ in range(n)]


def shard_specs(rng, n):
    return [{'seed': rng.randrange(10 ** 9), 'k': rng.choice([2, 3, 4, 5]), 'shards': rng.choice([1, 2, 2, 3]), 'heuristic': rng.choice(['MI-numba-randomized', 'AMI']),
             'index': rng.choice(['kept', 'kept', 'fresh'])} for _ in range(n)]


def run(ctx: Ctx):
    n = 14000 if ctx.thorough() else 1800
    cases = corpus() + [gen_case(ctx.rng, ctx.thorough()) for _ in range(n)]
    evaluate(ctx, cases)
    evaluate_shards(ctx, shard_specs(ctx.rng, 1500 if ctx.thorough() else 200))
    evaluate_cli_summary(ctx, cli_summary_specs(ctx.rng, 12 if ctx.thorough() else 3))
    # end-to-end summary family (drawn last, so that the cases above do not depend on it)
    corr_E2E.evaluate_summary(ctx, corr_E2E.corpus_summary() + corr_E2E.gen_summary_cases(ctx.rng, ctx.thorough()))


def search(ctx: Ctx):
    """extended failing-input search: oracle only, bigger budget, well-formed families only, larger tables"""
    sub = Ctx(ctx.prop, ctx.tier)
    sub.rng.seed(f'search:{ctx.seed}')
    cases = [gen_case(sub.rng, True, family=sub.rng.choice(['wf', 'wf', 'retyped', 'floats'])) for _ in range(4000)]
    evaluate(sub, cases, oracle_only=True)
    evaluate_shards(sub, shard_specs(sub.rng, 800))
    evaluate_cli_summary(sub, cli_summary_specs(sub.rng, 4))
    corr_E2E.evaluate_summary(sub, corr_E2E.corpus_summary() + corr_E2E.gen_summary_cases(sub.rng, True)[:80], oracle_only=True)
    return sub.oracle_failures


def replay(ctx: Ctx, payload):
    c = payload['case']
    if isinstance(c, dict) and c.get('e2e'):
        corr_E2E.evaluate_summary(ctx, [c])
        return
    if isinstance(c, dict) and 'cli_summary' in c:
        evaluate_cli_summary(ctx, [c['cli_summary']])
        return
    if isinstance(c, dict) and 'shards_case' in c:
        evaluate_shards(ctx, [c['shards_case']])
        return
    c.setdefault('violates', None)
    evaluate(ctx, [c])
    im = run_impl(c)
    print('implementation:', im)
    med, final, agg = spec_tables(c)
    print('spec: medians', {k: str(v) for k, v in med.items()}, '| final', None if final is None else {k: str(v) for k, v in final.items()},
          '| aggregated', None if agg is None else {k: str(v) for k, v in agg.items()})
