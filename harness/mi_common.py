"""Shared generator / runner for the mutual-information family (C01–C04)."""
from __future__ import annotations

import math
from fractions import Fraction

from vp_common import Atom, line


def tol(n):
    """DESIGN §5 C01: float32 rounding of weights/terms, float64 accumulation, bounded by H(Y)+H(Y|X) <= 2 ln n"""
    return 4e-6 * (1 + math.log(max(n, 1)))


def r_exact(r32) -> Fraction:
    return Fraction(float(r32))


def impl_mi(Y, X, r=1.0, cc=False):
    import numpy as np
    from outrank.algorithms.feature_ranking import ranking_mi_numba as m
    return float(m.mutual_info_estimator_numba(np.asarray(Y, dtype=np.int32), np.asarray(X, dtype=np.int32),
                                               np.float32(r), bool(cc)))


def impl_mi_history(pairs, r=1.0, cc=False):
    """the estimator called repeatedly on the SAME two int32 arrays whose contents are replaced in place between the calls
    (a caller that reuses its buffers); returns the list of scores"""
    import numpy as np
    from outrank.algorithms.feature_ranking import ranking_mi_numba as m
    n = len(pairs[0][0])
    by, bx = np.zeros(n, dtype=np.int32), np.zeros(n, dtype=np.int32)
    out = []
    for Y, X in pairs:
        by[:] = Y
        bx[:] = X
        out.append(float(m.mutual_info_estimator_numba(by, bx, np.float32(r), bool(cc))))
    return out


VIEW_MODES = ['lag1', 'lag2', 'same-start', 'same-start-swapped', 'reversed', 'matrix']


def series_views(series, mode):
    """two int32 VIEWS of one buffer (a library caller scoring a series against its own lags, a matrix row against a column, …):
    they share memory cells, may start at the same address with different strides, or run in opposite directions"""
    import numpy as np
    b = np.asarray(series, dtype=np.int32)
    if mode == 'lag1':
        return b[1:], b[:-1]
    if mode == 'lag2':
        return b[2:], b[:-2]
    if mode == 'same-start':
        k = len(b) // 2
        return b[:2 * k:2], b[:k]
    if mode == 'same-start-swapped':
        k = len(b) // 2
        return b[:k], b[:2 * k:2]
    if mode == 'reversed':
        return b[::-1][:-1], b[:-1]
    q = max(1, int(len(b) ** 0.5))
    M = b[:q * q].reshape(q, q)
    return M[0, :], M[:, 0]


def gen_series(rng):
    n = rng.choice([3, 4, 6, 9, 16, 25, 64, 200, 800])
    codes = rng.choice([[0, 1], [0, 1, 2, 3], [1, 2, 3, 5], [17, 4242, 90001, 1000003 % 2 ** 20], list(range(20)), [7, 7000, 5, 900000]])
    if rng.random() < 0.5:                      # a Markov chain: consecutive values are dependent
        s = [rng.choice(codes)]
        for _ in range(n - 1):
            s.append(s[-1] if rng.random() < 0.6 else rng.choice(codes))
    else:
        s = [rng.choice(codes) for _ in range(n)]
    return s


def impl_mi_views(series, mode, r=1.0, cc=False):
    """returns (score on the views, contents of the Y view, contents of the X view, buffer unchanged by the call)"""
    import numpy as np
    from outrank.algorithms.feature_ranking import ranking_mi_numba as m
    Yv, Xv = series_views(series, mode)
    Y, X = Yv.tolist(), Xv.tolist()
    base = Yv.base if Yv.base is not None else Yv
    while getattr(base, 'base', None) is not None:
        base = base.base
    before = base.copy()
    v = float(m.mutual_info_estimator_numba(Yv, Xv, np.float32(r), bool(cc)))
    return v, Y, X, bool(np.array_equal(before, base))


def est_line(Y, X, r=Fraction(1), cc=False):
    return line(Atom('MI'), Atom('est'), list(Y), list(X), r.numerator, r.denominator, bool(cc))


# ---------------------------------------------------------------------------------------------
# families of (Y, X) pairs

def zipf(rng, n, k):
    w = [1.0 / (i + 1) for i in range(k)]
    return rng.choices(range(k), weights=w, k=n)


def gen_pair(rng, thorough=False, maxn=None):
    """returns (family, Y, X) of equal-length lists of non-negative ints"""
    u = rng.random()
    if u < 0.6:
        n = rng.choice(list(range(1, 65)))
    elif u < 0.97:
        n = rng.randint(65, 1500)
    else:
        n = rng.choice([3000, 5000] + ([20000] if thorough else []))
    if maxn:
        n = min(n, maxn)
    ks = sorted({1, 2, 3, 7, max(1, int(math.sqrt(n))), max(1, n // 2), n})
    fam = rng.choice(['indep', 'indep', 'zipf', 'constY', 'constX', 'distinctY', 'distinctX', 'self', 'perm', 'func',
                      'planted', 'singletons', 'sparse', 'equalsum', 'equalhist'])
    if n > 5000 and rng.random() < 0.9:
        # the Lean model is quadratic in (#values x n): large vectors mostly with few values (a few high-cardinality ones remain)
        ks = [k for k in ks if k <= 64]
        if fam in ('distinctY', 'distinctX', 'singletons', 'sparse'):
            fam = 'indep'
    ky, kx = rng.choice(ks), rng.choice(ks)
    Y = [rng.randrange(ky) for _ in range(n)]
    X = [rng.randrange(kx) for _ in range(n)]
    if fam == 'zipf':
        Y, X = zipf(rng, n, ky), zipf(rng, n, kx)
    elif fam == 'constY':
        Y = [rng.randrange(5)] * n
    elif fam == 'constX':
        X = [rng.randrange(5)] * n
    elif fam == 'distinctY':
        Y = rng.sample(range(n), n)
    elif fam == 'distinctX':
        X = rng.sample(range(n), n)
    elif fam == 'self':
        Y = X[:]
    elif fam == 'perm':                       # Y = pi(X): same histogram, same sum, different vector
        Y = X[:]
        rng.shuffle(Y)
    elif fam == 'func':
        f = [rng.randrange(max(1, kx // 2 + 1)) for _ in range(kx)]
        Y = [f[x] for x in X]
    elif fam == 'planted':
        X = [rng.randrange(2) for _ in range(n)]
        Y = [x if rng.random() > 0.15 else 1 - x for x in X]
    elif fam == 'singletons':                 # large strata mixed with singleton strata
        m = max(1, n // 3)
        X = [0] * (n - m) + list(range(1, m + 1))
        rng.shuffle(X)
    elif fam == 'sparse':
        cy = rng.sample(range(2 ** 20), ky)
        cx = rng.sample(range(2 ** 20), kx)
        if n > 300:                           # numba_unique allocates max+1 cells; keep the sparse family small
            cy = [c % 50000 for c in cy]
            cx = [c % 50000 for c in cx]
        Y = [cy[y] for y in Y]
        X = [cx[x] for x in X]
    elif fam == 'equalsum':                   # different vectors whose codes add up to the same total
        Y = X[:]
        if n >= 2:
            i, j = rng.sample(range(n), 2)
            Y[i] += 1
            Y[j] = Y[j] - 1 if Y[j] > 0 else Y[j]
            if sum(Y) != sum(X):
                Y[i] -= 1
                Y[j] = X[j]
                Y[i], Y[j] = Y[j], Y[i]
    elif fam == 'equalhist':
        Y = X[::-1]
    return fam, Y, X


def kernel_key(Y, X):
    """joint partition structure up to relabeling (used to count distinct non-trivial cases)"""
    my, mx = {}, {}
    return tuple((my.setdefault(y, len(my)), mx.setdefault(x, len(mx))) for y, x in zip(Y, X))
