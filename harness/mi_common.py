"""Shared generator / runner for the mutual-information family (C01–C04)."""
from __future__ import annotations

import math
from fractions import Fraction

from vp_common import Atom, line


def tol(n):
    """DESIGN §5 C01: float32 rounding of weights/terms, float64 accumulation, bounded by H(Y)+H(Y|X) <= 2 ln n"""
    return 4e-6 * (1 + math.log(max(n, 1)))


def r_exact(r32) -> Fraction:
    return Fraction(float(r32))


def impl_mi(Y, X, r=1.0, cc=False):
    import numpy as np
    from outrank.algorithms.feature_ranking import ranking_mi_numba as m
    return float(m.mutual_info_estimator_numba(np.asarray(Y, dtype=np.int32), np.asarray(X, dtype=np.int32),
                                               np.float32(r), bool(cc)))


def impl_mi_history(pairs, r=1.0, cc=False):
    """the estimator called repeatedly on the SAME two int32 arrays whose contents are replaced in place between the calls
    (a caller that reuses its buffers); returns the list of scores"""
    import numpy as np
    from outrank.algorithms.feature_ranking import ranking_mi_numba as m
    n = len(pairs[0][0])
    by, bx = np.zeros(n, dtype=np.int32), np.zeros(n, dtype=np.int32)
    out = []
    for Y, X in pairs:
        by[:] = Y
        bx[:] = X
        out.append(float(m.mutual_info_estimator_numba(by, bx, np.float32(r), bool(cc))))
    return out


def est_line(Y, X, r=Fraction(1), cc=False):
    return line(Atom('MI'), Atom('est'), list(Y), list(X), r.numerator, r.denominator, bool(cc))


# ---------------------------------------------------------------------------------------------
# families of (Y, X) pairs

def zipf(rng, n, k):
    w = [1.0 / (i + 1) for i in range(k)]
    return rng.choices(range(k), weights=w, k=n)


def gen_pair(rng, thorough=False, maxn=None):
    """returns (family, Y, X) of equal-length lists of non-negative ints"""
    u = rng.random()
    if u < 0.6:
        n = rng.choice(list(range(1, 65)))
    elif u < 0.97:
        n = rng.randint(65, 1500)
    else:
        n = rng.choice([3000, 5000] + ([20000] if thorough else []))
    if maxn:
        n = min(n, maxn)
    ks = sorted({1, 2, 3, 7, max(1, int(math.sqrt(n))), max(1, n // 2), n})
    fam = rng.choice(['indep', 'indep', 'zipf', 'constY', 'constX', 'distinctY', 'distinctX', 'self', 'perm', 'func',
                      'planted', 'singletons', 'sparse', 'equalsum', 'equalhist'])
    if n > 5000 and rng.random() < 0.9:
        # the Lean model is quadratic in (#values x n): large vectors mostly with few values (a few high-cardinality ones remain)
        ks = [k for k in ks if k <= 64]
        if fam in ('distinctY', 'distinctX', 'singletons', 'sparse'):
            fam = 'indep'
    ky, kx = rng.choice(ks), rng.choice(ks)
    Y = [rng.randrange(ky) for _ in range(n)]
    X = [rng.randrange(kx) for _ in range(n)]
    if fam == 'zipf':
        Y, X = zipf(rng, n, ky), zipf(rng, n, kx)
    elif fam == 'constY':
        Y = [rng.randrange(5)] * n
    elif fam == 'constX':
        X = [rng.randrange(5)] * n
    elif fam == 'distinctY':
        Y = rng.sample(range(n), n)
    elif fam == 'distinctX':
        X = rng.sample(range(n), n)
    elif fam == 'self':
        Y = X[:]
    elif fam == 'perm':                       # Y = pi(X): same histogram, same sum, different vector
        Y = X[:]
        rng.shuffle(Y)
    elif fam == 'func':
        f = [rng.randrange(max(1, kx // 2 + 1)) for _ in range(kx)]
        Y = [f[x] for x in X]
    elif fam == 'planted':
        X = [rng.randrange(2) for _ in range(n)]
        Y = [x if rng.random() > 0.15 else 1 - x for x in X]
    elif fam == 'singletons':                 # large strata mixed with singleton strata
        m = max(1, n // 3)
        X = [0] * (n - m) + list(range(1, m + 1))
        rng.shuffle(X)
    elif fam == 'sparse':
        cy = rng.sample(range(2 ** 20), ky)
        cx = rng.sample(range(2 ** 20), kx)
        if n > 300:                           # numba_unique allocates max+1 cells; keep the sparse family small
            cy = [c % 50000 for c in cy]
            cx = [c % 50000 for c in cx]
        Y = [cy[y] for y in Y]
        X = [cx[x] for x in X]
    elif fam == 'equalsum':                   # different vectors whose codes add up to the same total
        Y = X[:]
        if n >= 2:
            i, j = rng.sample(range(n), 2)
            Y[i] += 1
            Y[j] = Y[j] - 1 if Y[j] > 0 else Y[j]
            if sum(Y) != sum(X):
                Y[i] -= 1
                Y[j] = X[j]
                Y[i], Y[j] = Y[j], Y[i]
    elif fam == 'equalhist':
        Y = X[::-1]
    return fam, Y, X


def kernel_key(Y, X):
    """joint partition structure up to relabeling (used to count distinct non-trivial cases)"""
    my, mx = {}, {}
    return tuple((my.setdefault(y, len(my)), mx.setdefault(x, len(mx))) for y, x in zip(Y, X))
