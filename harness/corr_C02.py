"""C02 – scores depend on co-occurrence structure, not on numeric category codes; self-pair handling iff identical.
Tie: real njit estimator (cc on and off) vs the Lean model. Oracle: invariance of the implementation under generated injective
relabelings, and the dispatch clause (identical => entropy / different => corrected spec H(Y*|X)-H(Y|X))."""
from __future__ import annotations

from fractions import Fraction

from mi_common import VIEW_MODES, est_line, gen_pair, gen_series, impl_mi, impl_mi_views, kernel_key, series_views, tol
from vp_common import Atom, Ctx, line, run_driver

PROP = 'C02'
RULE = ('C01 pair families (30% equal-sum / equal-histogram non-identical pairs) x injective relabelings of either or both sides '
        '(random permutation of the used codes, +offset, order reversal, sparse injection below 2^20), cc on and off; a fifth of the pairs handed in as overlapping VIEWS of one buffer (same start address, lags, matrix row/column) and compared with their relabeling on fresh arrays; plus batch '
        'HISTORIES through mixed_rank_graph (string columns whose vocabulary grows past 255 over 2-3 batches of one process): every '
        'batch must score like its own columns under first-occurrence coding. '
        'Non-trivial = both sides non-constant and Y != X; distinct = distinct (partition structure, relabeling kind, cc).')
ASSUMPTIONS = ['float32 rounding: tolerance 4e-6*(1+ln n) (doubled when two implementation values are compared)',
               'relabelings keep the pair identical iff it was identical (the same map on both sides of an identical pair), '
               'because renaming only one side of an identical pair must, by the second sentence of the property, switch the correction on']


def relabel(rng, v, kind, sparse_ok=True):
    used = sorted(set(v))
    if kind == 'perm':
        img = used[:]
        rng.shuffle(img)
        m = dict(zip(used, img))
    elif kind == 'offset':
        off = rng.randint(1, 5000)
        m = {u: u + off for u in used}
    elif kind == 'reverse':
        top = max(used)
        m = {u: top - u for u in used}
    else:
        hi = 2 ** 20 if len(v) <= 300 else 50000
        img = rng.sample(range(hi), len(used))
        m = dict(zip(used, img))
    return m


def make_case(rng, thorough):
    fam, Y, X = gen_pair(rng, thorough, maxn=3000)
    if rng.random() < 0.3 and len(X) >= 2:            # equal-sum, non-identical
        Y = X[:]
        rng.shuffle(Y)
        fam = 'equal-hist-perm'
    kind = rng.choice(['perm', 'offset', 'reverse', 'sparse'])
    side = rng.choice(['Y', 'X', 'both'])
    cc = rng.random() < 0.6
    if Y == X:
        m = relabel(rng, X, kind)
        Y2, X2 = [m[y] for y in Y], [m[x] for x in X]
        side = 'both-same-map'
    else:
        my = relabel(rng, Y, kind) if side in ('Y', 'both') else {u: u for u in set(Y)}
        mx = relabel(rng, X, rng.choice(['perm', 'offset', 'reverse', 'sparse'])) if side in ('X', 'both') else {u: u for u in set(X)}
        Y2, X2 = [my[y] for y in Y], [mx[x] for x in X]
        if Y2 == X2:                                  # the relabeling made them identical: keep status by shifting Y
            Y2 = [y + 1 + max(X2) for y in Y2]
    return {'family': fam, 'Y': Y, 'X': X, 'Y2': Y2, 'X2': X2, 'kind': kind, 'side': side, 'cc': cc}


def make_view_case(rng):
    """the pair as two VIEWS of one buffer (same start address with other strides, lags, a matrix row and column): different
    vectors stay different vectors – the self-pair handling is about element-wise identity, not about where the arrays live"""
    for _ in range(50):
        series, mode = gen_series(rng), rng.choice(VIEW_MODES)
        Yv, Xv = series_views(series, mode)
        Y, X = Yv.tolist(), Xv.tolist()
        if Y != X and len(X) >= 1:
            break
    kind = rng.choice(['perm', 'offset', 'reverse', 'sparse'])
    my, mx = relabel(rng, Y, kind), relabel(rng, X, rng.choice(['perm', 'offset', 'reverse', 'sparse']))
    Y2, X2 = [my[y] for y in Y], [mx[x] for x in X]
    if Y2 == X2:
        Y2 = [y + 1 + max(X2) for y in Y2]
    return {'family': 'views/' + mode, 'Y': Y, 'X': X, 'Y2': Y2, 'X2': X2, 'kind': kind, 'side': 'both', 'cc': rng.random() < 0.7,
            'series': series, 'mode': mode}


def evaluate(ctx: Ctx, cases, oracle_only=False):
    req = []
    for c in cases:
        req.append(est_line(c['Y'], c['X'], Fraction(1), c['cc']))
        if c['Y'] == c['X']:
            req.append(line(Atom('MI'), Atom('entropy'), c['X']))
        elif c['cc']:
            req.append(line(Atom('MI'), Atom('corrected'), c['Y'], c['X']))
        else:
            req.append(line(Atom('MI'), Atom('plugin'), c['Y'], c['X']))
    rep = run_driver(req)
    for k, c in enumerate(cases):
        model, spec = rep[2 * k], rep[2 * k + 1]
        Y, X, n = c['Y'], c['X'], len(c['X'])
        t = tol(n)
        ctx.evaluations += 1
        ctx.count('family:' + c['family'])
        ctx.count('relabel:' + c['kind'] + '/' + c['side'])
        ctx.count('cc' if c['cc'] else 'plain')
        if len(set(Y)) > 1 and len(set(X)) > 1 and Y != X:
            ctx.nontrivial.add((hash(kernel_key(Y, X)), c['kind'], c['side'], c['cc']))
        a = impl_mi_views(c['series'], c['mode'], 1.0, c['cc'])[0] if 'series' in c else impl_mi(Y, X, 1.0, c['cc'])
        b = impl_mi(c['Y2'], c['X2'], 1.0, c['cc'])
        short = (f'family={c["family"]} n={n} cc={c["cc"]} Y={Y[:12]}{"…" if n > 12 else ""} X={X[:12]}{"…" if n > 12 else ""} '
                 f'relabel={c["kind"]}/{c["side"]} sumY={sum(Y)} sumX={sum(X)}' +
                 (f' [Y and X handed in as views ({c["mode"]}) of one int32 buffer {c["series"][:12]}…; the relabeled pair as fresh arrays]' if 'series' in c else ''))
        if not oracle_only:
            ctx.traces += 1
            if not abs(a - model) <= t:
                ctx.corr_fail('estimator', f'{short}: impl {a!r} vs model {model!r}', c)
        if not abs(a - b) <= 2 * t:
            ctx.oracle_fail('relabel', f'{short}: score {a!r} changes to {b!r} after relabeling to Y={c["Y2"][:12]} X={c["X2"][:12]}', c)
        elif not abs(a - spec) <= t:
            which = 'entropy (identical vectors)' if Y == X else ('H(Y*|X)-H(Y|X) (different vectors, correction on)' if c['cc'] else 'plug-in MI')
            ctx.oracle_fail('dispatch', f'{short}: score {a!r} but the branch for this pair demands {which} = {spec!r}', c)
        if c['family'] in ('equal-hist-perm', 'self'):
            ctx.sample({'family': c['family'], 'cc': c['cc'], 'Y': Y[:12], 'X': X[:12], 'Y2': c['Y2'][:12], 'X2': c['X2'][:12], 'impl': a, 'impl_relabeled': b, 'spec': spec})


# ---------------------------------------------------------------------------------------------
# category coding of the batch columns (mixed_rank_graph): the score of a batch depends on the equality pattern of ITS values
# only – not on which strings they are, and not on what earlier batches of the same process contained

def first_occurrence_codes(vals):
    seen = {}
    return [seen.setdefault(v, len(seen)) for v in vals]


def gen_batches(rng):
    """2-3 batches with the columns f, g, label; the vocabulary of f grows past 255 / past the int8 range over the batches while
    single batches stay small (any run-wide code book, dtype chosen per batch, or cache keyed by value would show)"""
    nb = rng.choice([2, 2, 3])
    big = rng.choice([130, 260, 300, 700])
    batches = []
    for b in range(nb):
        if b == 0 or rng.random() < 0.3:
            n = 2 * big
            f = [f'v{(i * 7 + b) % big}' for i in range(n)]
        else:
            n = rng.choice([40, 120, 200])
            pool = [f'v{rng.randrange(big)}' for _ in range(rng.choice([2, 3, 5]))] + [f'w{b}_{k}' for k in range(rng.choice([1, 2, 4]))]
            f = [rng.choice(pool) for _ in range(n)]
        label = [str(rng.randrange(2)) for _ in range(n)]
        g = [f'{x}|{y}' if rng.random() < 0.7 else 'z' for x, y in zip(f, label)]
        batches.append({'f': f, 'g': g, 'label': label})
    return {'batches': batches, 'heuristic': rng.choice(['MI-numba-randomized', 'MI-numba-3mr']), 'target_only': rng.random() < 0.5}


def evaluate_batches(ctx: Ctx, cases, oracle_only=False):
    import logging
    import types

    import pandas as pd
    from outrank import core_ranking as cr

    class Pool:
        ncpus = nodes = 1

        def __enter__(self):
            return self

        def __exit__(self, *a):
            return False

        def amap(self, f, xs):
            r = [f(x) for x in xs]
            return types.SimpleNamespace(ready=lambda: True, get=lambda: r)

    class PB:
        def set_description(self, *a, **k):
            pass

    for c in cases:
        ctx.evaluations += 1
        ctx.count('batch-history:%d-batches' % len(c['batches']))
        cr.GLOBAL_PRIOR_COMB_COUNTS.clear()
        args = types.SimpleNamespace(heuristic=c['heuristic'], label_column='label', mi_stratified_sampling_ratio=1.0,
                                     target_ranking_only='True' if c['target_only'] else 'False', reference_model_JSON='',
                                     combination_number_upper_bound=2 ** 15)
        logging.disable(logging.CRITICAL)
        try:
            for k, b in enumerate(c['batches']):
                df = pd.DataFrame(b)
                out = cr.mixed_rank_graph(df, args, Pool(), PB())
                cc = c['heuristic'] == 'MI-numba-randomized'
                for a, bb, s in out.triplet_scores:
                    if bb != 'label' or a == 'label':
                        continue
                    Y, X = first_occurrence_codes(b[a]), first_occurrence_codes(b['label'])
                    want = impl_mi(Y, X, 1.0, cc)          # the same estimator on a relabeling of the batch's own columns (C02 itself)
                    if k > 0:
                        ctx.nontrivial.add(hash(('hist', kernel_key(Y, X), k)))
                    if not abs(float(s) - want) <= 2 * tol(len(X)):
                        ctx.oracle_fail('batch-coding', f'batch #{k} of {len(c["batches"])} ranked in one process ({c["heuristic"]}): pair ({a!r}, \'label\') scored '
                                        f'{float(s)!r}, but the batch\'s own columns (first-occurrence codes) score {want!r}: the score depends on the '
                                        f'category codes / on earlier batches', {'batches': c['batches'][:k + 1], 'heuristic': c['heuristic'], 'target_only': c['target_only']})
                        raise StopIteration
        except StopIteration:
            pass
        except Exception as e:      # noqa: BLE001
            ctx.oracle_fail('batch-raises', f'mixed_rank_graph raised {type(e).__name__}: {e} on a batch history', c)
        finally:
            logging.disable(logging.NOTSET)
            cr.GLOBAL_PRIOR_COMB_COUNTS.clear()


def corpus():
    Y, X = [0, 1, 0, 1, 2, 2, 1, 0], [1, 0, 1, 0, 2, 2, 0, 1]
    return [{'family': 'F1', 'Y': Y, 'X': X, 'Y2': [y + 5 for y in Y], 'X2': X, 'kind': 'offset', 'side': 'Y', 'cc': True},
            {'family': 'corpus', 'Y': [0, 1], 'X': [1, 0], 'Y2': [7, 3], 'X2': [1, 0], 'kind': 'sparse', 'side': 'Y', 'cc': True},
            {'family': 'self', 'Y': [2, 2, 5], 'X': [2, 2, 5], 'Y2': [0, 0, 9], 'X2': [0, 0, 9], 'kind': 'perm', 'side': 'both-same-map', 'cc': True}]


def run(ctx: Ctx):
    n = 5000 if ctx.thorough() else 700
    evaluate(ctx, corpus() + [make_case(ctx.rng, ctx.thorough()) for _ in range(n)] + [make_view_case(ctx.rng) for _ in range(n // 5)])
    evaluate_batches(ctx, [gen_batches(ctx.rng) for _ in range(60 if ctx.thorough() else 8)])


def replay(ctx: Ctx, payload):
    c = payload['case']
    if 'batches' in c:
        evaluate_batches(ctx, [c])
    else:
        evaluate(ctx, [c])


def search(ctx: Ctx):
    sub = Ctx(ctx.prop, ctx.tier)
    sub.rng.seed(f'search:{ctx.seed}')
    evaluate(sub, [make_case(sub.rng, False) for _ in range(3000)] + [make_view_case(sub.rng) for _ in range(800)], oracle_only=True)
    evaluate_batches(sub, [gen_batches(sub.rng) for _ in range(40)], oracle_only=True)
    return sub.oracle_failures
