"""C11 – feature construction is additive, row-aligned and follows its stated rule.
Tie: the real constructors (compute_expanded_multivalue_features, compute_subfeatures, include_noisy_features,
enrich_with_transformations, compute_combined_features) individually AND composed by the real compute_batch_ranking (all
flag subsets; mixed_rank_graph wrapped from outside to capture the frame it is handed, every constructor wrapped to record
the frame before/after it) vs the Lean model `Construct.pipeline` / `explodeMulti` / `subfeatures` / `noiseControls`:
column names in order and every non-random cell.  Python `set` iteration order (MULTIEX columns) and the transformation
block / random controls are taken from the implementation as the model's explicit parameters (permutation / opaque blocks).
Oracle (on the IMPLEMENTATION's frames): Lean `appendSpecB` (input is an unchanged prefix, every column has nrows values)
for every recorded step; independent recomputation of the indicator / sub-feature / control-target rules."""
from __future__ import annotations

import logging
import re
import types
import warnings

from vp_common import Atom, Ctx, line, run_driver

PROP = 'C11'
RULE = ('string frames (1..10 rows, 2..6 feature columns + label present/absent; column names plain or with "-", "&", "|", '
        'spaces, unicode) with multi-value cells (",", "-", doubled/leading/trailing delimiters, missing symbols, unicode), '
        'low-cardinality selector columns (incl. "" and values containing "&"/"AND"), numeric text columns; construction flags '
        'drawn independently: transformers none/minimal, explode 0..2 features (also a repeated one), 0..3 sub-feature seeds '
        '(-> and <->, sharing values so that names clash), interaction order 1..3 with caps 0..large, heuristic '
        'MI-numba-randomized / MI-numba-3mr / Constant, noise controls on/off, three missing-symbol settings; each case runs the '
        'constructors one by one and the whole compute_batch_ranking. Non-trivial = at least two construction flags on and a '
        'rule-bearing column (MULTIEX / SUBFEATURE / CONTROL-target) with both kinds of cells; distinct = distinct (frame, flags).')
ASSUMPTIONS = ['feature names contain no ";", "->", ","; the two features of a sub-feature seed are different columns; frames have pairwise distinct column names, str cells, nrows >= 1 and the '
               'default RangeIndex (compute_batch_ranking always builds such frames; a non-default index mis-aligns pd.concat(axis=1) '
               'in compute_subfeatures / compute_expanded_multivalue_features - only reachable by calling them directly)',
               'Python set iteration order is an arbitrary permutation: MULTIEX column order is taken from the implementation',
               'transformation block (C12) and random / row-hash control columns are opaque: only names, position, lengths are compared',
               'feature_set_focus unset, reference_model_JSON = "" (C09 / outside this property)',
               'xxh64 external (driver XXH64 validated cell by cell in C10 and here)']

MULTI = ['a,b', 'a-b', 'b', 'a', '', 'a,,b', '{}', 'x-{}', '{},a', 'é,a', 'a,é-b', ',', '-', 'a-', ',b', 'NA', 'NA,b', 'b,a', 'c']
# tokens that mean something else when read as a pattern (regex / glob / substring), next to the tokens such a pattern would match
MULTI_META = ['1.5', '115', '1.5,115', 'a.c,abc', 'abc', 'a.c', 'x+', 'xx', 'x+,y', 'a|b', 'ab', '(', '(,)', 'a*', 'aa', 'a*-aa',
              '[z]', 'z', '^a', '$', 'a$', '\\d', '7', '\\d,7', 'A', 'a', 'aa,a', 'a?', '.', '.,q', 'q']
SEL = ['', 'x', 'y', 'z', 'x&y', 'y&z', 'AND', 'x', 'é', '1', '11', 'x&', '&y']       # '&' joins the two values in a sub-feature's name
NUM = ['0', '1', '2.5', '3', '10', '0.5', '7', '100', '', '1_0', '0.05655136772680869', '"4"', '1e2', ' 6 ']
RANDOM_CONTROLS = ['CONTROL-gaussian', 'CONTROL-uniform', 'CONTROL-random-binary', 'CONTROL-random-card100',
                   'CONTROL-random-card2k', 'CONTROL-random-card10k', 'CONTROL-random-card50k', 'CONTROL-volume']
NONSTR = '\x00NONSTR:'


class PB:
    def set_description(self, *a, **k):
        pass


def gen_case(rng, thorough):
    n = rng.choice([1, 2, 3, 4, 5, 6, 8, 10])
    namekind = rng.choice(['plain', 'plain', 'odd'])
    pool = [f'f{i}' for i in range(8)] if namekind == 'plain' else ['a-b', 'a', 'x&y', 'p|q', 'ü', 'a b', 'a-b-c', 'SUBFEATURE', 'b']
    m = rng.choice([2, 3, 3, 4, 5, 6])
    names = rng.sample(pool, min(m, len(pool)))
    cols, kinds = [], {}
    for nm in names:
        kind = rng.choice(['multi', 'multi', 'sel', 'sel', 'num'])
        base = {'multi': MULTI if rng.random() < 0.6 else MULTI_META, 'sel': SEL, 'num': NUM}[kind]
        card = rng.choice([1, 2, 3, 4, len(base)])
        vals = rng.sample(base, min(card, len(base)))
        cols.append([nm, [rng.choice(vals) for _ in range(n)]])
        kinds[nm] = kind
    label = 'label'
    has_label = rng.random() < 0.8
    if has_label:
        cols.insert(rng.randint(0, len(cols)), [label, [rng.choice(['0', '1']) for _ in range(n)]])
    feats = [c[0] for c in cols if c[0] != label]
    nums = [f for f in feats if kinds[f] == 'num' and any(v not in ('', '0') for v in dict(map(tuple, cols))[f])]
    flags = {}
    flags['transformers'] = 'minimal' if (nums and rng.random() < 0.4) else 'none'
    flags['numeric'] = sorted(nums) if flags['transformers'] != 'none' else []
    flags['explode'] = None
    if rng.random() < 0.55:
        k = rng.choice([1, 1, 2])
        ex = [rng.choice(feats) for _ in range(k)]
        flags['explode'] = ex
    flags['missing'] = rng.choice([',{}', ',{}', 'NA,{}', 'zzz'])
    flags['sub'] = None
    if rng.random() < 0.55 and len(feats) >= 2:
        seeds = []
        for _ in range(rng.choice([1, 1, 2, 3])):
            a, b = rng.sample(feats, 2)      # a seed `a->a` selects a duplicated column and raises AttributeError: excluded
            seeds.append([rng.random() < 0.4, a, b])
        flags['sub'] = seeds
    # upper bound of the number of columns when the interaction step runs (keeps the candidate lists of the sampler small)
    d = dict((a, b) for a, b in cols)
    est = len(cols) + 4 * len(flags['numeric'])
    for f in (flags['explode'] or []):
        est += len(set().union(*[set(re.split('[,-]', v)) for v in d[f]]))
    for two, a, b in (flags['sub'] or []):
        est += len(set(d[b])) * (len(set(d[a])) if two else 1)
    flags['order'] = rng.choice([1, 1, 2, 2, 3] if est <= 8 else [1, 2, 2] if est <= 30 else [1])
    flags['cap'] = rng.choice([0, 1, 2, 3, 5, 12, 30])
    flags['heuristic'] = rng.choice(['MI-numba-randomized', 'MI-numba-randomized', 'MI-numba-3mr', 'Constant'] if est <= 30 else
                                    ['MI-numba-randomized', 'Constant'])
    flags['noise'] = rng.random() < 0.5
    flags['batches'] = rng.choice([1, 1, 2])
    return {'cols': cols, 'label': label, 'flags': flags, 'np_seed': rng.randrange(2 ** 31), 'names': namekind,
            'index': rng.choice(['range', 'range', 'range', 'offset', 'str', 'reversed', 'dup'])}


# ------------------------------------------------------------------------------------------------ implementation side

def cellstr(v, expect_str=True):
    if isinstance(v, str):
        return str(v)
    if expect_str:
        return NONSTR + repr(v)
    if hasattr(v, 'item'):
        v = v.item()
    return str(v)


def frame_of(df):
    out = []
    for i, c in enumerate(df.columns):
        c = str(c)
        expect_str = not c.startswith('CONTROL-') or c == 'CONTROL-target'
        out.append([c, [cellstr(v, expect_str) for v in df.iloc[:, i].tolist()]])
    return out


def make_args(case):
    fl = case['flags']
    return types.SimpleNamespace(
        task='ranking', minibatch_size=2 ** 14, output_folder='ranking_outputs', data_source='csv-raw', data_path=None, subsampling=1,
        combination_number_upper_bound=fl['cap'], missing_value_symbols=fl['missing'], heuristic=fl['heuristic'],
        include_noise_baseline_features='True' if fl['noise'] else 'False', include_cardinality_in_feature_names='True',
        image_format='pdf', num_threads=1, label_column=case['label'], max_unique_hist_constraint=30000,
        transformers=fl['transformers'], rare_value_count_upper_bound=1, feature_set_focus=None,
        interaction_order=fl['order'], reference_model_JSON='', target_ranking_only='True',
        explode_multivalue_features=';'.join(fl['explode']) if fl['explode'] is not None else 'False',
        subfeature_mapping=';'.join(a + ('<->' if two else '->') + b for two, a, b in fl['sub']) if fl['sub'] is not None else 'False',
        num_synthetic_features=100, tldr='True', num_synthetic_rows=1000, generator_type='naive',
        output_synthetic_df_name='x', disable_tqdm='True', mi_stratified_sampling_ratio=1.0)


def clear_globals(cr):
    cr.GLOBAL_CARDINALITY_STORAGE.clear()
    cr.GLOBAL_COUNTS_STORAGE.clear()
    cr.GLOBAL_RARE_VALUE_STORAGE.clear()
    cr.GLOBAL_PRIOR_COMB_COUNTS.clear()
    cr.IGNORED_VALUES.clear()


STEPS = ['enrich_with_transformations', 'compute_expanded_multivalue_features', 'compute_subfeatures',
         'compute_combined_features', 'include_noisy_features']


def run_impl(case):
    """returns {'single': {...}, 'batches': [ {'steps': [(name, in, out)], 'final': frame} | {'err': ...} ]}"""
    import numpy as np
    import pandas as pd
    from outrank import core_ranking as cr
    from outrank.core_utils import BatchRankingSummary
    fl = case['flags']
    args = make_args(case)
    lg = logging.getLogger('c11-null')
    lg.disabled = True
    res = {'single': {}, 'batches': []}
    logging.disable(logging.CRITICAL)
    try:
        return _run_impl(case, res, args, lg, cr, np, pd, BatchRankingSummary)
    finally:
        logging.disable(logging.NOTSET)


def _run_impl(case, res, args, lg, cr, np, pd, BatchRankingSummary):
    fl = case['flags']
    df0 = pd.DataFrame({nm: vals for nm, vals in case['cols']})
    # row labels as a library caller's frame may carry them (a filtered, re-sorted or concatenated frame); the values are what
    # the property speaks about, so the frames are compared by position
    ik = case.get('index', 'range')
    if ik == 'offset':
        df0.index = range(100, 100 + len(df0))
    elif ik == 'str':
        df0.index = [f'r{i}' for i in range(len(df0))]
    elif ik == 'reversed':
        df0.index = range(len(df0) - 1, -1, -1)
    elif ik == 'dup':
        df0.index = [i // 2 for i in range(len(df0))]
    inp = frame_of(df0)

    def single(name, fn):
        clear_globals(cr)
        np.random.seed(case['np_seed'])
        try:
            with warnings.catch_warnings():
                warnings.simplefilter('ignore')
                d = df0.copy()
                out = fn(d)
            res['single'][name] = {'ok': True, 'out': frame_of(out), 'input_after': frame_of(d) == inp}
        except Exception as e:   # noqa: BLE001
            res['single'][name] = {'ok': False, 'err': f'{type(e).__name__}: {e}'}

    if fl['explode'] is not None:
        single('explode', lambda d: cr.compute_expanded_multivalue_features(d, lg, args, PB()))
    if fl['sub'] is not None:
        single('sub', lambda d: cr.compute_subfeatures(d, lg, args, PB()))
    if fl['noise']:
        single('noise', lambda d: cr.include_noisy_features(d, lg, args))
    if fl['transformers'] != 'none':
        single('transform', lambda d: cr.enrich_with_transformations(d, set(fl['numeric']), lg, args))

    # ---- the composition, through the real compute_batch_ranking
    clear_globals(cr)
    np.random.seed(case['np_seed'])
    orig = {k: getattr(cr, k) for k in STEPS + ['mixed_rank_graph', 'compute_cardinalities']}
    rec = {'steps': [], 'final': None}

    def wrap(name):
        f = orig[name]

        def g(df, *a, **k):
            before = frame_of(df)
            default_index = isinstance(df.index, pd.RangeIndex) and df.index.start == 0 and df.index.step == 1
            out = f(df, *a, **k)
            rec['steps'].append([name, before, frame_of(out), bool(default_index)])
            return out
        return g

    def fake_rank(df, a, pool, pbar):
        rec['final'] = frame_of(df)
        return BatchRankingSummary([], {})
    try:
        for k in STEPS:
            setattr(cr, k, wrap(k))
        cr.mixed_rank_graph = fake_rank
        cr.compute_cardinalities = lambda *a, **k: None     # read-only statistics (C13/C14); allocates 2^19 registers per column
        rows = [list(r) for r in zip(*[v for _, v in case['cols']])]
        for _ in range(fl['batches']):
            rec['steps'], rec['final'] = [], None
            try:
                with warnings.catch_warnings():
                    warnings.simplefilter('ignore')
                    cr.compute_batch_ranking([r[:] for r in rows], set(fl['numeric']), args, None,
                                             [nm for nm, _ in case['cols']], lg, PB())
                res['batches'].append({'steps': rec['steps'], 'final': rec['final']})
            except Exception as e:   # noqa: BLE001
                res['batches'].append({'err': f'{type(e).__name__}: {e}', 'steps': rec['steps']})
                break
    finally:
        for k, v in orig.items():
            setattr(cr, k, v)
        clear_globals(cr)
    return res


# ------------------------------------------------------------------------------------------------ model side

def multiex_hint(feats, block):
    """token order per feature as iterated by the implementation (tokens contain no '-': split at the last one)"""
    hint = {f: [] for f in feats}
    for nm, _ in block:
        if nm.startswith('MULTIEX-'):
            body = nm[len('MULTIEX-'):]
            f, _, t = body.rpartition('-')
            if f in hint and t not in hint[f]:
                hint[f].append(t)
    return [[f, ts] for f, ts in hint.items()]


def cfg_wire(case):
    fl = case['flags']
    return [case['label'], fl['transformers'] != 'none',
            [] if fl['explode'] is None else [fl['explode']],
            fl['missing'].split(','),
            [] if fl['sub'] is None else [[[bool(t), a, b] for t, a, b in fl['sub']]],
            fl['order'], fl['cap'], '3mr' in fl['heuristic'], bool(fl['noise']), fl['heuristic'] == 'Constant']


def rnd_table(frame):
    d = dict((a, b) for a, b in frame)
    return [[nm, d[nm]] for nm in RANDOM_CONTROLS if nm in d]


def model_requests(case, impl):
    """list of (tag, request line) for the correspondence diff"""
    fl = case['flags']
    inp = case['cols']
    req = []
    s = impl['single']
    if s.get('explode', {}).get('ok'):
        hint = multiex_hint(fl['explode'], s['explode']['out'][len(inp):])
        req.append(('explode', line(Atom(PROP), Atom('explode'), inp, fl['explode'], fl['missing'].split(','), hint)))
    if s.get('sub', {}).get('ok'):
        req.append(('sub', line(Atom(PROP), Atom('sub'), inp, [[bool(t), a, b] for t, a, b in fl['sub']])))
    if s.get('noise', {}).get('ok'):
        req.append(('noise', line(Atom(PROP), Atom('noise'), inp, case['label'], rnd_table(s['noise']['out']))))
    req.append(('reset', line(Atom(PROP), Atom('reset'))))
    for bi, b in enumerate(impl['batches']):
        if 'err' in b or b['final'] is None:
            break
        tb, hint = [], []
        for name, before, after, _ in b['steps']:
            if name == 'enrich_with_transformations':
                tb = after[len(before):]
            if name == 'compute_expanded_multivalue_features':
                hint = multiex_hint(fl['explode'], after[len(before):])
        req.append((f'pipeline{bi}', line(Atom(PROP), Atom('pipeline'), inp, cfg_wire(case), hint, tb, rnd_table(b['final']))))
    return req


_MINIMAL = {}


def transform_content(case, out):
    """"follows its stated rule" for the transformation step: every appended column <feature><transformer> of the minimal preset
    must hold the transformer's formula (the regenerated C12 table, evaluated by C12's independent numpy interpreter) applied to
    float() of the feature's cells (quotes dropped, empty = 0).  Which columns are emitted is C12's keep rule and not judged here."""
    import math

    import corr_C12 as t12
    if not _MINIMAL:
        _MINIMAL.update(dict(t12.model_tables()['gen']['minimal']))
    cols = dict((a, b) for a, b in case['cols'])
    for name, vals in out[len(case['cols']):]:
        hit = [(f, k) for f in case['flags']['numeric'] for k in _MINIMAL if name == f + k]
        if len(hit) != 1:
            continue
        f, k = hit[0]
        try:
            want = t12.texts_of(_MINIMAL[k], cols[f])
        except Exception:      # noqa: BLE001 – cells float() rejects: the real code raises as well (judged elsewhere)
            continue
        for i, (g, w) in enumerate(zip(vals, want)):
            try:
                a, b = float(g), float(w)
            except ValueError:
                return f'column {name!r} row {i}: cell {g!r} is not a number (rule gives {w!r})'
            if not ((math.isnan(a) and math.isnan(b)) or a == b or abs(a - b) <= 1e-12 * max(abs(a), abs(b))):
                return f'column {name!r} row {i}: {g!r} but the rule {k!r} applied to the cell {cols[f][i]!r} gives {w!r}'
    return None


def oracle_requests(case, impl):
    """(tag, description, request) – Lean appendSpecB on every recorded (before, after) of the implementation"""
    req = []
    inp = case['cols']
    for name, r in impl['single'].items():
        if r['ok']:
            req.append((f'single:{name}', line(Atom(PROP), Atom('appendspec'), inp, r['out'])))
    for bi, b in enumerate(impl['batches']):
        for name, before, after, _ in b.get('steps', []):
            req.append((f'batch{bi}:{name}', line(Atom(PROP), Atom('appendspec'), before, after)))
        if b.get('final') is not None:
            req.append((f'batch{bi}:compute_batch_ranking', line(Atom(PROP), Atom('appendspec'), inp, b['final'])))
    return req


# ------------------------------------------------------------------------------------------------ rule oracles (independent)

def tokens(v):
    return set(re.split('[,-]', v))


def expected_multiex(before, feats, missing):
    d = dict((a, b) for a, b in before)
    miss = set(missing.split(','))
    exp = {}
    for f in feats:
        col = d[f]
        alltok = set().union(*[tokens(v) for v in col]) - miss
        for t in alltok:
            exp[f'MULTIEX-{f}-{t}'] = ['1' if t in tokens(v) else '' for v in col]
    return exp


def expected_sub(before, seeds):
    d = dict((a, b) for a, b in before)
    exp, kind = {}, {}
    for two, a, b in seeds:
        ca, cb = d[a], d[b]
        if two:
            for ub in dict.fromkeys(cb):
                for ua in dict.fromkeys(ca):
                    nm = f'SUBFEATURE|{a}|{b}-{ua}&{ub}'
                    exp[nm] = ['1' if (x, y) == (ua, ub) else '0' for x, y in zip(ca, cb)]
                    kind[nm] = 'sub-two-sided'
        else:
            for u in dict.fromkeys(cb):
                nm = f'SUBFEATURE-{a}&{u}'
                exp[nm] = [x + 'AND' + y if y == u else '' for x, y in zip(ca, cb)]
                kind[nm] = 'sub-one-sided'
    return exp, kind


def check_rules(ctx, case, small, tag, name, before, after):
    """rule clauses of the property on one recorded constructor call of the implementation"""
    fl = case['flags']
    if after[:len(before)] != before:
        return False    # reported by the append-only oracle
    block = after[len(before):]
    got = {}
    for nm, vals in block:
        got[nm] = vals
    rule_cols = False
    if name in ('explode', 'compute_expanded_multivalue_features'):
        exp = expected_multiex(before, fl['explode'], fl['missing'])
        if set(got) != set(exp):
            ctx.oracle_fail('multi-indicator', f'{tag}: MULTIEX columns {sorted(got)} but the tokens present (minus missing symbols '
                            f'{fl["missing"].split(",")}) require {sorted(exp)}', small)
        else:
            for nm in exp:
                if got[nm] != exp[nm]:
                    ctx.oracle_fail('multi-indicator', f'{tag}: column {nm!r} is {got[nm]} but the rows containing the token give {exp[nm]}', small)
                    break
                rule_cols = rule_cols or len(set(exp[nm])) > 1
    elif name in ('sub', 'compute_subfeatures'):
        exp, kind = expected_sub(before, fl['sub'])
        if set(got) != set(exp):
            ctx.oracle_fail('sub-names', f'{tag}: SUBFEATURE columns {sorted(got)} expected {sorted(exp)}', small)
        else:
            for nm in exp:
                if got[nm] != exp[nm]:
                    ctx.oracle_fail(kind[nm], f'{tag}: column {nm!r} is {got[nm]} but the rule gives {exp[nm]}', small)
                    break
                rule_cols = rule_cols or len(set(exp[nm])) > 1
    elif name in ('noise', 'include_noisy_features'):
        d = dict((a, b) for a, b in before)
        if case['label'] in d:
            if got.get('CONTROL-target') != d[case['label']]:
                ctx.oracle_fail('control-target', f'{tag}: CONTROL-target = {got.get("CONTROL-target")} but the label column is {d[case["label"]]}', small)
            rule_cols = len(set(d[case['label']])) > 1
    return rule_cols


def first_diff(a, b):
    if [x[0] for x in a] != [x[0] for x in b]:
        return f'column names/order differ: impl {[x[0] for x in a]} model {[x[0] for x in b]}'
    for (n1, v1), (_, v2) in zip(a, b):
        if v1 != v2:
            return f'column {n1!r}: impl {v1} model {v2}'
    return 'frames differ'


def simplifications(case):
    """smaller variants of a case (flags off, fewer seeds / features / columns / rows)"""
    fl = case['flags']

    def with_flags(**kw):
        return {**case, 'flags': {**fl, **kw}}
    if fl['batches'] > 1:
        yield with_flags(batches=1)
    if fl['transformers'] != 'none':
        yield with_flags(transformers='none', numeric=[])
    if fl['explode'] is not None:
        yield with_flags(explode=None)
        for i in range(len(fl['explode'])):
            if len(fl['explode']) > 1:
                yield with_flags(explode=fl['explode'][:i] + fl['explode'][i + 1:])
    if fl['sub'] is not None:
        yield with_flags(sub=None)
        for i in range(len(fl['sub'])):
            if len(fl['sub']) > 1:
                yield with_flags(sub=fl['sub'][:i] + fl['sub'][i + 1:])
    if fl['order'] > 1:
        yield with_flags(order=1)
    if fl['noise']:
        yield with_flags(noise=False)
    if fl['heuristic'] != 'MI-numba-randomized':
        yield with_flags(heuristic='MI-numba-randomized')
    used = set(fl['explode'] or []) | set(fl['numeric']) | {x for sd in (fl['sub'] or []) for x in sd[1:]}
    for i, (nm, _) in enumerate(case['cols']):
        if nm not in used and len(case['cols']) > 1:
            yield {**case, 'cols': case['cols'][:i] + case['cols'][i + 1:]}
    n = len(case['cols'][0][1])
    if n > 1:
        yield {**case, 'cols': [[a, b[:n // 2]] for a, b in case['cols']]}
        yield {**case, 'cols': [[a, b[n // 2:]] for a, b in case['cols']]}
        for i in range(n):
            yield {**case, 'cols': [[a, b[:i] + b[i + 1:]] for a, b in case['cols']]}


def shrink(case, key, budget=120):
    desc = [None]

    def fails(c):
        sub = Ctx(PROP, 'quick')
        try:
            evaluate(sub, [c], oracle_only=True, shrinking=True)
        except Exception:   # noqa: BLE001
            return False
        hit = [f for f in sub.oracle_failures if f.key == key]
        if hit:
            desc[0] = hit[0].desc
        return bool(hit)
    cur, progress = case, True
    while progress and budget > 0:
        progress = False
        for cand in simplifications(cur):
            budget -= 1
            if budget <= 0:
                break
            if fails(cand):
                cur, progress = cand, True
                break
    return cur, desc[0]


def evaluate(ctx: Ctx, cases, oracle_only=False, shrinking=False):
    n_before = len(ctx.oracle_failures)
    _evaluate(ctx, cases, oracle_only)
    if not shrinking:
        seen = {f.key for f in ctx.oracle_failures[:n_before]}
        for f in ctx.oracle_failures[n_before:]:
            if f.key not in seen:
                seen.add(f.key)
                f.case, d = shrink(f.case, f.key)
                if d:
                    f.desc = d


def _evaluate(ctx: Ctx, cases, oracle_only=False):
    impls = [run_impl(c) for c in cases]
    req, spans = [], []
    for c, im in zip(cases, impls):
        m = [] if oracle_only else model_requests(c, im)
        o = oracle_requests(c, im)
        spans.append((len(req), m, o))
        req += [x[1] for x in m] + [x[1] for x in o]
    rep = run_driver(req)
    for c, im, (a, m, o) in zip(cases, impls, spans):
        ctx.evaluations += 1
        fl = c['flags']
        small = {'cols': c['cols'], 'label': c['label'], 'flags': fl, 'np_seed': c['np_seed'], 'names': c['names'], 'index': c.get('index', 'range')}
        on = [k for k in ('explode', 'sub') if fl[k] is not None] + (['transformers'] if fl['transformers'] != 'none' else []) + \
             (['interactions'] if fl['order'] > 1 else []) + (['noise'] if fl['noise'] else []) + (['3mr'] if '3mr' in fl['heuristic'] else [])
        ctx.count('flags-on:%d' % len(on))
        for k in on:
            ctx.count('flag:' + k)
        ctx.count('heuristic:' + fl['heuristic'])
        ctx.count('batches:%d' % fl['batches'])
        mrep = rep[a:a + len(m)]
        orep = rep[a + len(m):a + len(m) + len(o)]
        # ---- errors of the implementation
        for name, r in im['single'].items():
            if not r['ok']:
                ctx.oracle_fail('raises', f'single:{name} raised {r["err"]}', small)
            elif not r['input_after']:
                ctx.oracle_fail('append-only', f'single:{name} modified its input frame in place', small)
        tr = im['single'].get('transform')
        if tr and tr['ok']:
            bad = transform_content(c, tr['out'])
            ctx.count('transform-content-checked')
            ctx.count('single-constructor-row-labels:' + small['index'])
            if bad:
                ctx.oracle_fail('transform-rule', f'single:transform: {bad}', small)
        for bi, b in enumerate(im['batches']):
            if 'err' in b:
                ctx.oracle_fail('raises', f'compute_batch_ranking (batch {bi}) raised {b["err"]}', small)
        # ---- append-only + lengths (Lean spec op on the implementation's frames)
        for (tag, _), ok in zip(o, orep):
            if ok != Atom('true'):
                ctx.oracle_fail('append-only', f'{tag}: the input columns are not an unchanged prefix of the output, or some column does '
                                f'not have exactly one value per row (row labels of the frame handed to the single constructors: {small["index"]}; '
                                f'input {len(c["cols"][0][1])} rows)', small)
        # ---- rule clauses
        rule_cols = False
        for name, r in im['single'].items():
            if r['ok']:
                rule_cols |= check_rules(ctx, c, small, f'single:{name}', name, c['cols'], r['out'])
        for bi, b in enumerate(im['batches']):
            for name, before, after, default_index in b.get('steps', []):
                ctx.count('constructor-input-index:' + ('default-RangeIndex' if default_index else 'NON-DEFAULT'))
                rule_cols |= check_rules(ctx, c, small, f'batch{bi}:{name}', name, before, after)
        if len(on) >= 2 and rule_cols:
            ctx.nontrivial.add(repr((c['cols'], sorted(fl.items(), key=str))))
        # ---- correspondence
        if not oracle_only:
            ctx.traces += 1
            for (tag, _), mr in zip(m, mrep):
                if tag == 'reset':
                    continue
                if tag.startswith('pipeline'):
                    got = im['batches'][int(tag[len('pipeline'):])]['final']
                else:
                    got = im['single'][tag]['out']
                if got != mr:
                    ctx.corr_fail(tag.rstrip('0123456789'), f'{tag}: ' + first_diff(got, mr), small)
                    break
        ctx.sample({'flags': fl, 'columns_handed_to_ranking': [x[0] for x in im['batches'][0].get('final') or []] if im['batches'] else None})


def corpus():
    base = {'label': 'label', 'np_seed': 7, 'names': 'plain'}
    fl = {'transformers': 'none', 'numeric': [], 'explode': None, 'missing': ',{}', 'sub': None, 'order': 1, 'cap': 2 ** 15,
          'heuristic': 'MI-numba-randomized', 'noise': False, 'batches': 1}
    c1 = [['m', ['x,y', 'y-z', '', '{}-x']], ['s', ['1', '1', '2', '2']], ['t', ['p', 'q', 'p', 'p']], ['label', ['0', '1', '0', '1']]]
    return [
        {**base, 'cols': c1, 'flags': {**fl, 'explode': ['m'], 'sub': [[False, 's', 't'], [True, 's', 't']], 'order': 2, 'noise': True,
                                     'heuristic': 'MI-numba-3mr', 'batches': 2, 'cap': 3}},
        {**base, 'cols': c1, 'flags': {**fl, 'sub': [[False, 's', 't'], [False, 's', 'm']], 'noise': True}},
        {**base, 'cols': [['m', ['a,,b', '-', 'a-']], ['n', ['1', '2.5', '3']]],
         'flags': {**fl, 'explode': ['m', 'm'], 'transformers': 'minimal', 'numeric': ['n'], 'noise': True, 'heuristic': 'Constant'}},
        # two DIFFERENT value pairs whose '&'-joined renderings coincide ('x&y' & 'z'  vs  'x' & 'y&z'): a two-sided sub-feature is the
        # indicator of the PAIR
        {**base, 'cols': [['a', ['x&y', 'x', 'x&y', 'x', 'w']], ['b', ['z', 'y&z', 'z', 'z', 'y&z']], ['label', ['0', '1', '0', '1', '1']]],
         'flags': {**fl, 'sub': [[True, 'a', 'b']]}, 'index': 'str'},
    ]


def gen_long(rng):
    """a numeric column longer than 2^15 rows under a preset with column-wide statistics (C12's long-frame generator: the rows
    after the first 2^14 only take low values, so any evaluation in row blocks sees other maxima / means there)"""
    import corr_C12 as t12
    c = t12.gen_long_frame(rng)
    while 'f' not in c['cols']:                  # the one-column variant (C12's generator also has a two-column one)
        c = t12.gen_long_frame(rng)
    n = rng.choice([33000, 40000, 70000])
    col = c['cols']['f']
    low = sorted(set(col[2 ** 14:]), key=float)
    c['cols']['f'] = col[:2 ** 14] + [rng.choice(low) for _ in range(n - 2 ** 14)]
    return c


def evaluate_long(ctx: Ctx, cases):
    """every constructed column of a long frame follows its stated rule: the column <feature><transformer> holds what the
    transformer's name denotes (C12's regenerated table and numpy interpreter) on the WHOLE feature column, row-aligned"""
    import corr_C12 as t12
    T = t12.model_tables()
    for c in cases:
        ctx.evaluations += 1
        ctx.count('long-frame')
        feat, cells = next(iter(c['cols'].items()))
        short = f'long frame: one numeric column of {len(cells)} rows (values {sorted(set(cells), key=float)[:12]}), preset={c["preset"]!r}'
        real = t12.real_frame(c)
        if 'exc' in real:
            ctx.oracle_fail('raises', f'{short}: construct_new_features raised {real["exc"]}', {'long': c})
            continue
        if not real['orig_ok']:
            ctx.oracle_fail('append-only', f'{short}: the original columns changed', {'long': c})
            continue
        exprs = {}
        for nm in c['preset'].split(','):
            for k, e in T['gen'].get(nm, []):
                exprs[k] = T['spec'].get(k, e)
        for name, colsets in real['new'].items():
            k = name[len(feat):]
            if not name.startswith(feat) or k not in exprs:
                continue
            got = colsets[0]
            if len(got) != len(cells):
                ctx.oracle_fail('row-aligned', f'{short}: column {name!r} has {len(got)} rows', {'long': c})
                break
            try:
                want = t12.texts_of(exprs[k], cells)
            except Exception:      # noqa: BLE001
                continue
            bad = next((i for i, (g, w) in enumerate(zip(got, want)) if not t12.close(g, w)), None)
            if bad is not None:
                nbad = sum(1 for g, w in zip(got, want) if not t12.close(g, w))
                ctx.oracle_fail('transform-rule', f'{short}: column {name!r} row {bad}: {got[bad]!r} but the rule applied to the whole column gives '
                                f'{want[bad]!r} for the cell {cells[bad]!r} ({nbad} rows differ)', {'long': c})
                break


def run(ctx: Ctx):
    n = 8000 if ctx.thorough() else 1200
    cases = corpus() + [gen_case(ctx.rng, ctx.thorough()) for _ in range(n)]
    evaluate(ctx, cases)
    evaluate_long(ctx, [gen_long(ctx.rng) for _ in range(4 if ctx.thorough() else 1)])


def replay(ctx: Ctx, payload):
    c = payload['case']
    if isinstance(c, dict) and 'long' in c:
        evaluate_long(ctx, [c['long']])

    else:
        evaluate(ctx, [c])


def search(ctx: Ctx):
    sub = Ctx(ctx.prop, ctx.tier)
    sub.rng.seed(f'search:{ctx.seed}')
    cases = [gen_case(sub.rng, True) for _ in range(3000)]
    evaluate(sub, cases, oracle_only=True)
    evaluate_long(sub, [gen_long(sub.rng) for _ in range(2)])
    return sub.oracle_failures
