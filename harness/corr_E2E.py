"""E2E – end-to-end correspondence families of the pipeline model (DESIGN §11.2): `evaluate_e2e` (ranking stage, attached
to C08, Props/Pipeline.lean) and `evaluate_summary` (ranking + summary stage, attached to C18, Props/PipelineSummary.lean).

Implementation side: the REAL `outrank_task_conduct_ranking` / `estimate_importances_minibatches` on a generated CSV file,
in-process with the synchronous stand-in pool (`stream_common.run_inprocess`), observed from outside: rows and triplets of
every `compute_batch_ranking` call, invalid-line count, the grouped frame, `pairwise_ranks.tsv`.
Model side: ONE driver request per file, `E2E rank B sub heuristic label targetOnly rnum rden header [lines]` = Lean
`Pipeline.rankFile` at Float (csv automaton of C16 -> field-count test -> `Stream.run` -> per batch category codes, C06 pairs,
C05 label orientation + dispatch over the regenerated table, MI model of C01/C03/C04 -> mirrored rows -> median -> ascending
sort).  `rnum / rden` = the exact rational of `np.float32(--mi_stratified_sampling_ratio)` (`mi_common.r_exact`; 1.0 = 1/1);
the ratio cases use the float32 values of {0.5, 0.25, 0.9}.

correspondence failure = model != implementation (pair set, invalid count, number of batches, a score outside the tolerance);
oracle failure        = the implementation's own outputs violate a clause that is decided independently of the model:
  e2e-crash        the task raised;
  e2e-pairs        pairs of pairwise_ranks.tsv != the pairs the configuration asks for (computed here from header / label / mode);
  e2e-orientation  a pair and its mirror image carry different scores;
  e2e-median       a score != exact median (Fractions) of the implementation's own per-batch triplet scores of that pair;
  e2e-order        pairwise_ranks.tsv is not in ascending score order / is not the grouped frame;
  e2e-batch-score  the per-batch score of a (feature, label) pair != the heuristic on independently derived category codes
                   (ranks among sorted(set(column))): plug-in MI for MI-numba-3mr, H(F*|L) - H(F|L) with the LABEL as
                   conditioning side for MI-numba-randomized (Lean spec ops `MI plugin` / `MI corrected` / `MI entropy`);
                   at a ratio below 1: the estimator on the per-stratum first-quota sample of those codes, label as the
                   conditioning side (Lean op `MI est F L rnum rden cc`; Props/Pipeline `batch_score_subsampled`).

Summary family (`evaluate_summary`): the same generated files through the real `outrank_task_conduct_ranking` FOLLOWED BY the
real `outrank_task_result_summary` (what `--task all` does) vs ONE driver request `E2E summary …` = Lean
`Pipeline.summaryOfFile` (C18 `summary` on the rows of the model's final table, scores through the exact Float -> Rat map).
oracle failures (decided on the implementation's own files, independent of the model; Props/PipelineSummary):
  e2es-crash       the summary task raised / wrote no feature_singles.tsv;
  e2es-features    the names of feature_singles.tsv are not exactly the header's columns (label included), each once;
  e2es-score       a score != the (normalised, when "MI" occurs in the heuristic name) score of the row (feature, label) of the
                   implementation's own pairwise_ranks.tsv, recomputed with exact fractions (1e-9 relative);
  e2es-sorted      feature_singles.tsv is not in descending score order;
  e2es-normalised  "MI" in the heuristic name, max > min: best feature != 1.0 or worst != 0.0.
correspondence failures: e2es-names / e2es-score / e2es-order (model vs file; tied scores compared as multisets: the file's order
must be descending in the MODEL's scores up to the tolerance).  The NaN column (max = min) is observed and counted only.
Tolerance of a normalised score: with t = the per-score bound below and R = max - min of the model's un-normalised scores,
|n' - n| <= 4t / (R - 2t) (numerator and denominator each move by at most 2t, n' in [0, 1]) + 1e-9 relative; files with
R <= 8t are counted as `range-below-tolerance` and their scores are not compared.

Tolerance.  Per-batch scores: `mi_common.tol(n)` = 4e-6 * (1 + ln n), n = rows of the batch (float32 weights / terms inside
numba, float64 accumulation; the bound of the C01-C03 harnesses).  Final scores: the median (any order statistic, and the mean
of two order statistics) is 1-Lipschitz in the sup norm, so if every per-batch score of the model is within t of the
implementation's, the medians are within t as well; the mean of the two middle values adds one float64 rounding (< 1e-15 here).
The bound used for a final score is therefore tol(max batch rows) + 1e-12.
"""
from __future__ import annotations

import io
import math
import random
from fractions import Fraction

import stream_common as sc
from mi_common import r_exact, tol
from vp_common import Atom, Ctx, line, run_driver

HEURISTICS = ['MI-numba-randomized', 'MI-numba-3mr']
SMALL_B = [40, 64, 150]
RULE_E2E = ('E2E family: CSV files from one PRNG, 3-5 columns (label anywhere; families low / mid / high cardinality, row id, '
            'constant, duplicated contents of another column, (noisy) function of the label), cells drawn from an alphabet with commas, '
            'quotes, blanks and empty strings (rendered with random extra quoting), 2-4 batches with B in {40, 64, 150} or one B > 1030 '
            'file with a used tail, subsampling 1-3 with filler lines, 0-6 % malformed lines (too few / too many fields, empty, '
            'unbalanced quote, stray quote), LF / CRLF terminators, with / without final newline; MI-numba-randomized and MI-numba-3mr, '
            'target-only and pairwise; sampling ratio 1.0 plus a block of files at the float32 ratios 0.5 / 0.25 / 0.9 (quota below, at '
            'and above the stratum sizes, quota 0 when the conditioning column has many values).')
ASSUMPTIONS_E2E = [
    'E2E: configuration of Model/Pipeline.lean (csv-raw, interaction order 1, no transformers / noise / focus / reference JSON, '
    'sampling ratio = exact rational of the float32 value, cap 2048 >= number of pairs, distinct ASCII column names, ASCII cells: '
    'the code reads the header with the locale encoding and the data with latin1)',
    'E2E: lines are shipped to the model exactly as text-mode iteration yields them (io.StringIO(text, newline=None))',
    'E2E: scores compared within 4e-6*(1+ln n) (+1e-12 for the median, see module docstring; the same bound the C04 harness uses '
    'below ratio 1, n = rows of the batch); structure compared exactly',
]
RULE_E2ES = ('E2E summary family: the files of the E2E family (ratio 1.0 and the float32 ratios 0.5 / 0.25 / 0.9; MI-numba-randomized, '
             'MI-numba-3mr and, for the branch without normalisation, max-value-coverage) through the real ranking task FOLLOWED BY the '
             'real summary task; feature_singles.tsv vs Pipeline.summaryOfFile.')
ASSUMPTIONS_E2ES = [
    'E2E summary: configuration of Model/Pipeline.lean; the label contains no "-" and no other column has the label before its '
    'first "-" (Props/PipelineSummary `NamesOK`, checked per file); `--interaction_order 1` (no aggregated file)',
    'E2E summary: normalised scores within 4t/(R-2t) + 1e-9 relative (t = per-score bound, R = range of the model\'s un-normalised '
    'scores), files with R <= 8t not compared; order of tied scores as multisets; the NaN column (max = min) is observed only',
]
RATIOS = [0.5, 0.25, 0.9]            # passed as Python floats; the code applies np.float32, the model gets mi_common.r_exact

VOCAB = ['a', 'b', 'c', '0', '1', '10', '9', 'A', '', ' ', 'x y', 'b,c', 'a,"b"', 'say "hi"', '"', ',', ' lead', 'trail ', "it's",
         'a;b', '-1', '1.0', 'NaN', 'None', 'zz', 'Z', '{"k": 1, "j": [2, 3]}', 'tab\there', '""', 'q"q']


# ---------------------------------------------------------------------------------------------
# generation

def gen_e2e_case(rng: random.Random, thorough=False, big=None, ratio=None, heuristics=None):
    """`ratio` / `heuristics`: extra keys for the ratio block and the summary family (drawn AFTER everything else, so the
    ratio-1 cases of a seed are the ones this generator always produced)"""
    case = _gen_e2e_case(rng, thorough, big)
    if heuristics is not None:
        case['heuristic'] = rng.choice(heuristics)
    if ratio is not None:
        case['ratio'] = ratio
    return case


def _gen_e2e_case(rng: random.Random, thorough=False, big=None):
    if big is None:
        big = rng.random() < (0.06 if thorough else 0.0)
    if big:
        B = rng.choice([1031, 1040, 1100])
        nb, extra, sub = 1, 1025 + rng.randrange(0, 5), 1
    else:
        B = rng.choice(SMALL_B)
        nb = rng.choice([2, 3, 4])
        extra = rng.choice([0, 1, B - 1, rng.randrange(B)])
        sub = rng.choice([1, 1, 2, 3])
    ncol = rng.choice([3, 4, 5])
    return {'e2e': 1, 'gseed': rng.getrandbits(48), 'B': B, 'sub': sub, 'nb': nb, 'extra': extra, 'ncol': ncol,
            'label_pos': rng.randrange(ncol), 'heuristic': rng.choice(HEURISTICS), 'target_only': rng.random() < 0.5,
            'p_bad': rng.choice([0.0, 0.01, 0.03, 0.06]), 'p_quote': rng.choice([0.0, 0.2, 0.6]),
            'crlf': rng.random() < 0.25, 'trail_nl': rng.random() < 0.8, 'take': None}


def needs_quote(cell):
    return any(ch in cell for ch in ',"\r\n')


def render_cell(r, cell, p_quote):
    if needs_quote(cell) or r.random() < p_quote:
        return '"' + cell.replace('"', '""') + '"'
    return cell


def render_row(r, cells, p_quote):
    if cells == ['']:
        return '""'
    return ','.join(render_cell(r, c, p_quote) for c in cells)


def build_e2e(case):
    """(header names, label name, data lines without terminator) – deterministic in the case"""
    if 'text' in case:
        t = list(io.StringIO(case['text'], newline=None))
        return case['cols'], case['label'], [s.rstrip('\n') for s in t[1:]]
    r = random.Random(case['gseed'])
    ncol, B, sub = case['ncol'], case['B'], case['sub']
    label = r.choice(['label', 'y', 'click', 'the label'])
    base = r.choice(['f{}', 'feat_{}', 'F {}', 'c{}.v', '{}x'])
    cols = [base.format(i) for i in range(ncol - 1)]
    cols.insert(case['label_pos'], label)
    V = case['nb'] * B + case['extra']
    fams = {}
    feats = [c for c in cols if c != label]
    for j, c in enumerate(feats):
        fams[c] = r.choice(['low', 'mid', 'high', 'rid', 'const', 'dup', 'func', 'noisy'])
    if not any(f == 'dup' for f in fams.values()) and len(feats) >= 2 and r.random() < 0.5:
        fams[feats[-1]] = 'dup'
    if fams[feats[0]] == 'dup':
        fams[feats[0]] = 'low'
    lk = r.choice([2, 2, 2, 3, 5])
    lvals = r.sample(['0', '1', '2', '3', 'yes', 'no', '', 'n/a', 'a,b'], lk)
    voc = {c: r.sample(VOCAB, len(VOCAB)) for c in feats}
    fmap = {c: [r.randrange(max(2, lk)) for _ in range(lk)] for c in feats}
    dup_src = {}
    for j, c in enumerate(feats):
        if fams[c] == 'dup':
            dup_src[c] = r.choice(feats[:j])
    const = {c: r.choice(VOCAB) for c in feats}

    def cells(i):
        y = r.randrange(lk)
        row = {label: lvals[y]}
        for c in feats:
            f = fams[c]
            if f == 'low':
                v = voc[c][r.randrange(3)]
            elif f == 'mid':
                v = voc[c][r.randrange(11)]
            elif f == 'high':
                v = voc[c][r.randrange(len(VOCAB))] + str(r.randrange(max(2, B // 2)))
            elif f == 'rid':
                v = str(i)
            elif f == 'const':
                v = const[c]
            elif f == 'dup':
                v = row[dup_src[c]]
            elif f == 'func':
                v = voc[c][fmap[c][y]]
            else:
                v = voc[c][fmap[c][y]] if r.random() > 0.2 else voc[c][r.randrange(4)]
            row[c] = v
        return [row[c] for c in cols]

    def good(i):
        return render_row(r, cells(i), case['p_quote'])

    def bad(i):
        kind = r.choice(['few', 'many', 'empty', 'openquote', 'strayquote', 'one'])
        cs = cells(i)
        if kind == 'few':
            del cs[r.randrange(len(cs))]
            return render_row(r, cs, case['p_quote']) if cs != [''] else 'zz'
        if kind == 'many':
            return render_row(r, cs + [r.choice(['x', '', '7', 'a,b'])], case['p_quote'])
        if kind == 'empty':
            return ''
        if kind == 'openquote':                       # the rest of the line is swallowed by the open quoted field
            return '"' + ','.join(c.replace('"', '') for c in cs)
        if kind == 'strayquote':                      # a quote inside an unquoted field is a literal; one field too many
            return 'ab"c,' + ','.join(c.replace('"', '').replace(',', ';') for c in cs)
        return 'zz'

    lines = []
    i = 0
    nv = 0
    while nv < V:
        for _ in range(sub - 1):                      # unselected filler lines
            lines.append(good(i) if r.random() < 0.85 else bad(i))
            i += 1
        if r.random() < case['p_bad']:
            lines.append(bad(i))
        else:
            lines.append(good(i))
            nv += 1
        i += 1
    for _ in range(r.randrange(sub)):
        lines.append(good(i))
        i += 1
    if case.get('take') is not None:
        lines = lines[:case['take']]
    return cols, label, lines


def file_text(case, cols, lines):
    if 'text' in case:
        return case['text']
    nl = '\r\n' if case.get('crlf') else '\n'
    t = ','.join(cols) + nl + nl.join(lines)
    if lines and (case.get('trail_nl', True) or lines[-1] == ''):
        t += nl
    return t


def argkw(case, label):
    return dict(minibatch_size=case['B'], subsampling=case['sub'], heuristic=case['heuristic'], label_column=label,
                target_ranking_only='True' if case['target_only'] else 'False', combination_number_upper_bound=2048,
                mi_stratified_sampling_ratio=float(case.get('ratio', 1.0)))


def ratio_of(case):
    """exact rational of the float32 value `numba_mi` hands to the estimator"""
    import numpy as np
    return r_exact(np.float32(case.get('ratio', 1.0)))


def cfg_args(case, label):
    r = ratio_of(case)
    return [case['B'], case['sub'], case['heuristic'], label, bool(case['target_only']), r.numerator, r.denominator]


def corpus_e2e():
    rows = [f'{i % 2},{(i * 7) % 3},"v,{i % 5}",{i % 4}' for i in range(130)]
    rows[3] = '1,2'
    rows[77] = ''
    text = 'label,f0,f1,f2\n' + '\n'.join(rows) + '\n'
    base = {'e2e': 1, 'cols': ['label', 'f0', 'f1', 'f2'], 'label': 'label', 'text': text, 'B': 40, 'sub': 1}
    return [dict(base, heuristic=h, target_only=t) for h in HEURISTICS for t in (True, False)]


def corpus_ratio():
    """the fixed file at every ratio: 40-row batches, label with 2 values -> quota 10 / 5 / 18 per label value"""
    base = corpus_e2e()[0]
    return [dict(base, heuristic=h, target_only=t, ratio=r) for r in RATIOS for (h, t) in
            (('MI-numba-randomized', True), ('MI-numba-3mr', False))]


# ---------------------------------------------------------------------------------------------
# evaluation

def finite(x):
    return x == x and x not in (float('inf'), float('-inf'))


def indep_codes(col):
    ranks = {v: i for i, v in enumerate(sorted(set(col)))}
    return [ranks[v] for v in col]


def expected_pairs(cols, label, heuristic, target_only):
    """the ordered pairs the configuration asks for (both orientations), from C06's clauses – independent of the model"""
    if '3mr' in heuristic:                                       # no relation columns: all non-relation columns pairwise
        return {(a, b) for a in cols for b in cols}
    if target_only:
        return {(c, label) for c in cols} | {(label, c) for c in cols}
    return {(a, b) for a in cols for b in cols}


def exact_median(xs):
    s = sorted(Fraction(x) for x in xs)
    n = len(s)
    return s[n // 2] if n % 2 else (s[n // 2 - 1] + s[n // 2]) / 2


def short(case):
    return {k: v for k, v in case.items() if k != 'text' or len(v) < 4000}


def observe(case, summary=False):
    cols, label, lines = build_e2e(case)
    text = file_text(case, cols, lines)
    rec = sc.run_inprocess(text, summary=summary, **argkw(case, label))
    return cols, label, text, rec


def requests_for(case, cols, label, text, rec):
    fl = list(io.StringIO(text, newline=None))
    header, data = (fl[0], fl[1:]) if fl else ('', [])
    req = [line(Atom('E2E'), Atom('rank'), *cfg_args(case, label), header, data)]
    r = ratio_of(case)
    # independent per-batch specification of the (feature, label) scores
    spec = []
    li = cols.index(label)
    for bi, b in enumerate(rec.batches):
        rows = b['rows']
        if not rows or any(len(x) != len(cols) for x in rows) or case['heuristic'] not in HEURISTICS:
            continue
        L = indep_codes([x[li] for x in rows])
        for j, c in enumerate(cols):
            if c == label:
                continue
            F = indep_codes([x[j] for x in rows])
            if r < 1:
                spec.append((bi, c, 'est', len(req)))
                req.append(line(Atom('MI'), Atom('est'), F, L, r.numerator, r.denominator, case['heuristic'] == 'MI-numba-randomized'))
            elif case['heuristic'] == 'MI-numba-3mr':
                spec.append((bi, c, 'plugin', len(req)))
                req.append(line(Atom('MI'), Atom('plugin'), F, L))
            elif F == L:
                spec.append((bi, c, 'entropy', len(req)))
                req.append(line(Atom('MI'), Atom('entropy'), L))
            else:
                spec.append((bi, c, 'corrected', len(req)))
                req.append(line(Atom('MI'), Atom('corrected'), F, L))
    return req, spec


def judge(ctx: Ctx, case, cols, label, rec, rep, spec, oracle_only=False):
    sc_case = short(case)
    h, tO = case['heuristic'], case['target_only']
    tag = f"E2E B={case['B']} sub={case['sub']} {h} {'target-only' if tO else 'pairwise'} cols={cols}"
    if case.get('ratio', 1.0) != 1.0:
        tag += f" ratio={case['ratio']!r}"
    if rec.error:
        ctx.oracle_fail('e2e-crash', f'{tag}: the ranking task raised {rec.error}', sc_case)
        return
    m_table, m_inv, m_nb = rep[0]
    nmax = max([len(b['rows']) for b in rec.batches] + [1])
    t = tol(nmax) + 1e-12
    impl_final = rec.final or []
    if any(not finite(x[2]) for b in rec.batches for x in b['triplets']) or any(not finite(x[2]) for x in m_table):
        ctx.count('e2e:skipped-nonfinite')
        return
    # ---------------- oracle: clauses decided on the implementation's own outputs
    fin = {}
    for a, b, s in impl_final:
        if (a, b) in fin:
            ctx.oracle_fail('e2e-pairs', f'{tag}: pair {(a, b)} occurs twice in pairwise_ranks.tsv', sc_case)
            return
        fin[(a, b)] = s
    want = expected_pairs(cols, label, h, tO) if rec.batches else set()
    if set(fin) != want:
        miss, extra = sorted(want - set(fin))[:3], sorted(set(fin) - want)[:3]
        ctx.oracle_fail('e2e-pairs', f'{tag}: pairs of pairwise_ranks.tsv differ from the requested ones: missing {miss} unexpected {extra} '
                        f'({len(fin)} rows, {len(rec.batches)} batches)', sc_case)
        return
    for (a, b), s in fin.items():
        if fin[(b, a)] != s:
            ctx.oracle_fail('e2e-orientation', f'{tag}: {(a, b)} scores {s!r} but {(b, a)} scores {fin[(b, a)]!r}', sc_case)
            return
    per = {}
    for b in rec.batches:
        for a, bb, s in b['triplets']:
            per.setdefault((a, bb), []).append(s)
    for k, s in fin.items():
        med = float(exact_median(per[k])) if k in per else None
        if med != s:
            ctx.oracle_fail('e2e-median', f'{tag}: {k} has score {s!r} in pairwise_ranks.tsv but the median of its {len(per.get(k, []))} '
                            f'per-batch scores {per.get(k, [])[:6]} is {med!r}', sc_case)
            return
    sc_list = [s for _, _, s in impl_final]
    if any(x > y for x, y in zip(sc_list, sc_list[1:])):
        k = next(i for i, (x, y) in enumerate(zip(sc_list, sc_list[1:])) if x > y)
        ctx.oracle_fail('e2e-order', f'{tag}: pairwise_ranks.tsv is not ascending: row {k} {impl_final[k]} before {impl_final[k + 1]}', sc_case)
        return
    if rec.grouped is not None and sorted(rec.grouped) != sorted(impl_final):
        ctx.oracle_fail('e2e-order', f'{tag}: pairwise_ranks.tsv is not a rearrangement of the grouped frame', sc_case)
        return
    for bi, c, kind, at in spec:
        wantv = rep[at]
        tb = tol(len(rec.batches[bi]['rows']))
        got = [s for a, b, s in rec.batches[bi]['triplets'] if (a, b) == (c, label)]
        for s in got:
            if not (finite(wantv) and abs(s - wantv) <= tb):
                what = {'plugin': 'plug-in MI of the two coded columns', 'entropy': 'entropy of the (identical) coded columns',
                        'corrected': f'H(F*|L) - H(F|L) with the label {label!r} as conditioning side',
                        'est': f'estimator on the per-stratum first-quota sample (ratio {ratio_of(case)}) of the two coded columns, '
                               f'label {label!r} as conditioning side,'}[kind]
                ctx.oracle_fail('e2e-batch-score', f'{tag}: batch #{bi} ({len(rec.batches[bi]["rows"])} rows) scores ({c!r}, {label!r}) = {s!r}, '
                                f'but the {what} is {wantv!r} (tol {tb:.1e})', sc_case)
                return
    if oracle_only:
        return
    # ---------------- correspondence: model vs implementation
    if m_inv != rec.invalid:
        ctx.corr_fail('e2e-invalid', f'{tag}: implementation reports {rec.invalid} invalid lines, the model {m_inv}', sc_case)
    if m_nb != len(rec.batches):
        ctx.corr_fail('e2e-batches', f'{tag}: implementation ranked {len(rec.batches)} batches ({[len(b["rows"]) for b in rec.batches]} rows), the model {m_nb}', sc_case)
        return
    mt = {(a, b): s for a, b, s in m_table}
    if len(mt) != len(m_table) or set(mt) != set(fin):
        ctx.corr_fail('e2e-pairs', f'{tag}: model pairs {sorted(set(mt) - set(fin))[:3]} / implementation pairs {sorted(set(fin) - set(mt))[:3]} differ '
                      f'({len(mt)} vs {len(fin)} rows)', sc_case)
        return
    worst = max(fin, key=lambda k: abs(fin[k] - mt[k]), default=None)
    if worst is not None and abs(fin[worst] - mt[worst]) > t:
        ctx.corr_fail('e2e-score', f'{tag}: {worst} scores {fin[worst]!r} in pairwise_ranks.tsv, the model says {mt[worst]!r} '
                      f'(difference {abs(fin[worst] - mt[worst]):.3e} > tol {t:.1e}; {len(rec.batches)} batches of {[len(b["rows"]) for b in rec.batches]} rows)', sc_case)
        return
    ms = [s for _, _, s in m_table]
    if any(x > y for x, y in zip(ms, ms[1:])):
        ctx.corr_fail('e2e-model-order', f'{tag}: the model table is not ascending', sc_case)


def account(ctx, case, cols, rec, label=None):
    ctx.evaluations += 1
    ctx.count('e2e:files')
    ctx.count('e2e:' + case['heuristic'])
    ctx.count('e2e:mode:' + ('target' if case['target_only'] else 'pairwise'))
    ctx.count(f'e2e:B={"big" if case["B"] > 1030 else case["B"]}')
    ctx.count(f'e2e:sub={case["sub"]}')
    ctx.count(f'e2e:ratio={case.get("ratio", 1.0)!r}')
    if case.get('ratio', 1.0) != 1.0 and rec.batches and label in cols:
        # does the sub-sampling bite?  quota of the (feature, label) calls of the first batch vs the label's stratum sizes
        rows = rec.batches[0]['rows']
        if rows and all(len(x) == len(cols) for x in rows):
            col = [x[cols.index(label)] for x in rows]
            r = ratio_of(case)
            q = ((r.numerator * len(col)) // r.denominator) // len(set(col))
            ctx.count('e2e:ratio:quota=0' if q == 0 else 'e2e:ratio:quota<every-label-stratum' if q < min(col.count(v) for v in set(col))
                      else 'e2e:ratio:quota>=some-label-stratum')
    ctx.count(f'e2e:cols={len(cols)}')
    ctx.count('e2e:batches=%d' % len(rec.batches))
    ctx.count('e2e:invalid>0' if rec.invalid else 'e2e:invalid=0')
    if rec.batches and len(rec.batches[-1]['rows']) < case['B']:
        ctx.count('e2e:tail-used')
    if len(rec.batches) >= 2:
        ctx.nontrivial.add(('e2e', case.get('gseed', case.get('heuristic')), case['heuristic'], case['target_only'], case.get('ratio', 1.0)))
    ctx.sample({'e2e': True, 'B': case['B'], 'sub': case['sub'], 'heuristic': case['heuristic'], 'cols': cols, 'ratio': case.get('ratio', 1.0),
                'batch_sizes': [len(b['rows']) for b in rec.batches], 'invalid': rec.invalid, 'final_head': (rec.final or [])[:2]}, limit=8)


def evaluate_e2e(ctx: Ctx, cases, oracle_only=False, do_shrink=True):
    obs = [observe(c) for c in cases]
    req, spans = [], []
    for c, (cols, label, text, rec) in zip(cases, obs):
        r, spec = requests_for(c, cols, label, text, rec)
        spans.append((len(req), len(r), spec))
        req += r
    rep = run_driver(req)
    for c, (cols, label, text, rec), (a, n, spec) in zip(cases, obs, spans):
        n_or, n_co = len(ctx.oracle_failures), len(ctx.corr_failures)
        local = rep[a:a + n]
        judge(ctx, c, cols, label, rec, local, [(bi, cc, kind, at) for bi, cc, kind, at in spec], oracle_only)
        account(ctx, c, cols, rec, label)
        if not oracle_only:
            ctx.traces += 1
        if do_shrink and 'text' not in c:
            new = ctx.oracle_failures[n_or:] + ctx.corr_failures[n_co:]
            for f in new[:1]:
                pool = ctx.oracle_failures if f.kind == 'oracle' else ctx.corr_failures
                if not any(g.key == f.key for g in pool if g is not f):       # only the first failure of a key is shrunk
                    shrink(c, f)


def fails_same(case, failure):
    sub = Ctx('C08', 'quick')
    evaluate_e2e(sub, [case], oracle_only=(failure.kind == 'oracle'), do_shrink=False)
    pool = sub.oracle_failures if failure.kind == 'oracle' else sub.corr_failures
    return next((f for f in pool if f.key == failure.key), None)


def shrink(case, failure, fails=None):
    """shortest failing prefix of the data lines (bisection; not monotone, best effort)"""
    fails = fails or fails_same
    _, _, lines = build_e2e(case)
    lo, hi = 0, len(lines)
    best = None
    for _ in range(12):
        if hi - lo <= 1:
            break
        mid = (lo + hi) // 2
        f = fails({**case, 'take': mid}, failure)
        if f is not None:
            hi, best = mid, f
        else:
            lo = mid
    if best is not None:
        failure.case, failure.desc = best.case, best.desc + ' [shrunk to the shortest failing prefix found]'


def n_cases(thorough):
    return 300 if thorough else 25


def n_ratio_cases(thorough):
    return 90 if thorough else 12


def gen_cases(rng, thorough):
    n = n_cases(thorough)
    cases = [gen_e2e_case(rng, thorough) for _ in range(n - 1)]
    cases.append(gen_e2e_case(rng, thorough, big=True))        # one B > 1030 file with a used tail in every run
    # the ratio block (drawn after the ratio-1 cases): every ratio equally often, one B > 1030 file among them when thorough
    m = n_ratio_cases(thorough)
    cases += [gen_e2e_case(rng, thorough, big=(thorough and k == 0), ratio=RATIOS[k % len(RATIOS)]) for k in range(m)]
    return cases


# ---------------------------------------------------------------------------------------------
# summary family (attached to C18): ranking task, then summary task, on one file

SUMMARY_HEURISTICS = ['MI-numba-randomized', 'MI-numba-3mr', 'MI-numba-randomized', 'MI-numba-3mr', 'max-value-coverage']


def corpus_summary():
    base = corpus_e2e()[0]
    out = [dict(base, e2es=1, heuristic=h, target_only=t) for h in ('MI-numba-randomized', 'MI-numba-3mr', 'max-value-coverage')
           for t in (True, False)]
    out += [dict(base, e2es=1, heuristic='MI-numba-randomized', target_only=True, ratio=r) for r in RATIOS]
    # max = min: two features with identical contents, label independent of nothing else -> identical scores? (the label scores its
    # own entropy, so a NaN column needs a single feature equal to the label): label and f0 identical columns
    rows = [f'{i % 3},{i % 3}' for i in range(120)]
    out.append({'e2e': 1, 'e2es': 1, 'cols': ['label', 'f0'], 'label': 'label', 'text': 'label,f0\n' + '\n'.join(rows) + '\n', 'B': 40,
                'sub': 1, 'heuristic': 'MI-numba-randomized', 'target_only': True})
    return out


def n_summary_cases(thorough):
    return 240 if thorough else 30


def gen_summary_cases(rng, thorough):
    n = n_summary_cases(thorough)
    ratios = [None, None, None] + RATIOS                      # half of the files at ratio 1.0
    cases = [gen_e2e_case(rng, thorough, big=(thorough and k == 0), ratio=ratios[k % len(ratios)], heuristics=SUMMARY_HEURISTICS)
             for k in range(n)]
    for c in cases:
        c['e2es'] = 1
    return cases


def names_ok(label, cols):
    """Props/PipelineSummary `NamesOK`"""
    return '-' not in label and all(c == label or c.split('-')[0] != label for c in cols)


def fnorm(u):
    """exact min-max normalisation of {name: Fraction}; None when max = min"""
    mn, mx = min(u.values()), max(u.values())
    return None if mn == mx else {k: (v - mn) / (mx - mn) for k, v in u.items()}


def judge_summary(ctx: Ctx, case, cols, label, rec, rep, oracle_only=False):
    sc_case = short(case)
    h = case['heuristic']
    mi = 'MI' in h
    tag = (f"E2E-summary B={case['B']} sub={case['sub']} {h} {'target-only' if case['target_only'] else 'pairwise'} "
           f"ratio={case.get('ratio', 1.0)!r} cols={cols} label={label!r}")
    if rec.error:
        ctx.oracle_fail('e2es-crash', f'{tag}: the ranking task raised {rec.error}', sc_case)
        return
    if rec.final is None:                                    # no batch was ranked: the ranking task exits before writing anything
        ctx.count('e2es:no-ranking-output')
        return
    if rec.summary_error or rec.singles is None:
        ctx.oracle_fail('e2es-crash', f'{tag}: outrank_task_result_summary on the folder the ranking task wrote '
                        f'{"raised " + rec.summary_error if rec.summary_error else "wrote no feature_singles.tsv"}', sc_case)
        return
    if not names_ok(label, cols) or len(set(cols)) != len(cols):
        ctx.count('e2es:excluded:names-precondition')
        return
    out = rec.singles
    if any(not finite(s) for _, _, s in rec.final):
        ctx.count('e2es:skipped-nonfinite')
        return
    # ---------------- oracle: the clauses on the implementation's own two files (exact fractions)
    names = [n for n, _ in out]
    if sorted(names) != sorted(cols):
        ctx.oracle_fail('e2es-features', f'{tag}: feature_singles.tsv lists {names}; the columns of the header (each scored against the '
                        f'label, the label itself included) are {cols}', sc_case)
        return
    fin = {(a, b): s for a, b, s in rec.final}
    if any((c, label) not in fin for c in cols):
        ctx.oracle_fail('e2es-features', f'{tag}: pairwise_ranks.tsv has no row for {[c for c in cols if (c, label) not in fin][:3]} against the label', sc_case)
        return
    u = {c: Fraction(fin[(c, label)]) for c in cols}       # the group {(c, label), (label, c)} holds this one value (checked by the E2E family)
    want = fnorm(u) if mi else u
    allnan = all(math.isnan(v) for _, v in out)
    if want is None:
        ctx.count('e2es:max=min: NaN column observed' if allnan else 'e2es:max=min: other outcome observed')
        return
    if any(math.isnan(v) for _, v in out):
        if mi and (max(u.values()) - min(u.values())) < Fraction(1, 10 ** 12) * (1 + max(abs(x) for x in u.values())):
            ctx.count('e2es:max~min: NaN column observed')
            return
        ctx.oracle_fail('e2es-score', f'{tag}: feature_singles.tsv has a NaN score although the scores against the label differ: {out}', sc_case)
        return
    rng_ = (max(u.values()) - min(u.values())) if mi else Fraction(1)
    scale_u = max(abs(x) for x in u.values())
    ill = mi and rng_ < Fraction(1, 10 ** 6) * scale_u       # read_csv's parser (not correctly rounded) is amplified by 1 / range
    if ill:
        ctx.count('e2es:oracle-skipped:range<1e-6*scale')
    else:
        for n, v in out:
            e = want[n]
            if not abs(Fraction(v) - e) <= Fraction(1, 10 ** 9) * (1 + abs(e)):
                what = 'normalised score (s - min) / (max - min)' if mi else 'score'
                ctx.oracle_fail('e2es-score', f'{tag}: feature {n!r}: pairwise_ranks.tsv scores ({n!r}, {label!r}) = {fin[(n, label)]!r}, '
                                f'so its {what} is {float(e)!r}; feature_singles.tsv has {v!r} '
                                f'(min {float(min(u.values()))!r}, max {float(max(u.values()))!r})', sc_case)
                return
    for (n1, v1), (n2, v2) in zip(out, out[1:]):
        if not v1 >= v2:
            ctx.oracle_fail('e2es-sorted', f'{tag}: feature_singles.tsv is not in descending score order: {n1!r}={v1!r} before {n2!r}={v2!r}', sc_case)
            return
    if mi and out and (out[0][1] != 1.0 or out[-1][1] != 0.0):
        ctx.oracle_fail('e2es-normalised', f'{tag}: "MI" occurs in the heuristic name and the scores differ, but the best feature has '
                        f'{out[0][1]!r} (must be 1) and the worst {out[-1][1]!r} (must be 0): {out}', sc_case)
        return
    if oracle_only:
        return
    # ---------------- correspondence: Pipeline.summaryOfFile vs the file
    m_sum, m_table = rep
    if any(not finite(x[2]) for x in m_table):
        ctx.count('e2es:skipped-nonfinite')
        return
    mt = {(a, b): s for a, b, s in m_table}
    mu = {c: Fraction(mt[(c, label)]) for c in cols if (c, label) in mt}
    if isinstance(m_sum, Atom):                              # the model's medians are all equal; the implementation's differ in the last bits
        ctx.count('e2es:model-degenerate, implementation not (observed)')
        return
    md = {n: Fraction(v) for n, v in m_sum}
    if len(md) != len(m_sum) or sorted(md) != sorted(names):
        ctx.corr_fail('e2es-names', f'{tag}: feature_singles.tsv lists {names}, the model {[n for n, _ in m_sum]}', sc_case)
        return
    nmax = max([len(b['rows']) for b in rec.batches] + [1])
    t = Fraction(tol(nmax) + 1e-12)
    if mi:
        R = max(mu.values()) - min(mu.values()) if mu else Fraction(0)
        if R <= 8 * t:
            ctx.count('e2es:range-below-tolerance')
            return
        bound = 4 * t / (R - 2 * t)
    else:
        bound = t
    worst = max(out, key=lambda p: abs(Fraction(p[1]) - md[p[0]]))
    d = abs(Fraction(worst[1]) - md[worst[0]])
    if d > bound + Fraction(1, 10 ** 9) * (1 + abs(md[worst[0]])):
        ctx.corr_fail('e2es-score', f'{tag}: feature {worst[0]!r} has {worst[1]!r} in feature_singles.tsv, the model says {float(md[worst[0]])!r} '
                      f'(difference {float(d):.3e} > bound {float(bound):.2e})', sc_case)
        return
    slack = 2 * bound + Fraction(1, 10 ** 9)
    for i in range(len(names)):
        for j in range(i + 1, len(names)):
            if md[names[i]] + slack < md[names[j]]:
                ctx.corr_fail('e2es-order', f'{tag}: feature_singles.tsv lists {names[i]!r} before {names[j]!r}, the model scores them '
                              f'{float(md[names[i]])!r} < {float(md[names[j]])!r}', sc_case)
                return
    ms = [Fraction(v) for _, v in m_sum]
    if any(x < y for x, y in zip(ms, ms[1:])):
        ctx.corr_fail('e2es-model-order', f'{tag}: the model table is not descending', sc_case)


def account_summary(ctx, case, cols, rec):
    ctx.evaluations += 1
    ctx.count('e2es:files')
    ctx.count('e2es:' + case['heuristic'])
    ctx.count('e2es:mode:' + ('target' if case['target_only'] else 'pairwise'))
    ctx.count(f'e2es:ratio={case.get("ratio", 1.0)!r}')
    ctx.count('e2es:batches=%d' % len(rec.batches))
    if rec.singles and len(rec.batches) >= 2 and len({v for _, v in rec.singles}) >= 3:
        ctx.nontrivial.add(('e2es', case.get('gseed', case.get('heuristic')), case['heuristic'], case['target_only'], case.get('ratio', 1.0)))
    ctx.sample({'e2e_summary': True, 'B': case['B'], 'heuristic': case['heuristic'], 'ratio': case.get('ratio', 1.0), 'cols': cols,
                'batch_sizes': [len(b['rows']) for b in rec.batches], 'feature_singles': (rec.singles or [])[:5]}, limit=8)


def fails_same_summary(case, failure):
    sub = Ctx('C18', 'quick')
    evaluate_summary(sub, [case], oracle_only=(failure.kind == 'oracle'), do_shrink=False)
    pool = sub.oracle_failures if failure.kind == 'oracle' else sub.corr_failures
    return next((f for f in pool if f.key == failure.key), None)


def evaluate_summary(ctx: Ctx, cases, oracle_only=False, do_shrink=True):
    obs = [observe(c, summary=True) for c in cases]
    req = []
    for c, (cols, label, text, rec) in zip(cases, obs):
        fl = list(io.StringIO(text, newline=None))
        header, data = (fl[0], fl[1:]) if fl else ('', [])
        req.append(line(Atom('E2E'), Atom('summary'), *cfg_args(c, label), header, data))
    rep = run_driver(req) if not oracle_only else [None] * len(req)
    for c, (cols, label, text, rec), r in zip(cases, obs, rep):
        n_or, n_co = len(ctx.oracle_failures), len(ctx.corr_failures)
        judge_summary(ctx, c, cols, label, rec, r, oracle_only)
        account_summary(ctx, c, cols, rec)
        if not oracle_only:
            ctx.traces += 1
        if do_shrink and 'text' not in c:
            new = ctx.oracle_failures[n_or:] + ctx.corr_failures[n_co:]
            for f in new[:1]:
                pool = ctx.oracle_failures if f.kind == 'oracle' else ctx.corr_failures
                if not any(g.key == f.key for g in pool if g is not f):       # only the first failure of a key is shrunk
                    shrink(c, f, fails_same_summary)
