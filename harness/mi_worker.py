"""Sub-process worker for C04: evaluates cases from a JSON-lines file with the real njit functions and streams one JSON
result per line (flushed), so that a native crash loses only the case in flight.  Run under different MALLOC_PERTURB_."""
import json
import sys

import numpy as np


def main(path, start):
    import logging
    logging.disable(logging.CRITICAL)
    from outrank.algorithms import importance_estimator as ie
    from outrank.algorithms.feature_ranking import ranking_mi_numba as m
    poison = [np.full(k, 1e300) for k in (3, 17, 64, 257, 1000, 4097)]   # python-level poison of freed blocks
    del poison
    with open(path) as fh:
        cases = [json.loads(l) for l in fh]
    for c in cases[start:]:
        print(json.dumps({'id': c['id'], 'begin': True}), flush=True)
        Y = np.asarray(c['Y'], dtype=np.int32)
        X = np.asarray(c['X'], dtype=np.int32)
        r = np.float32(c['r'])
        junk = np.full(int(max(1, float(r) * len(X))), 1e300)
        del junk
        out = {'id': c['id']}
        try:
            out['v'] = float(m.mutual_info_estimator_numba(Y, X, r, bool(c['cc'])))
            if c.get('alt') is not None:
                Y2 = Y.copy()
                for i, v in c['alt']:
                    Y2[i] = v
                out['valt'] = float(m.mutual_info_estimator_numba(Y2, X, r, bool(c['cc'])))
            # the same call as the pipeline makes it: numba_mi(feature matrix, target, heuristic name, CLI ratio)
            name = 'MI-numba-randomized' if c['cc'] else 'MI-numba-3mr'
            r_glue = c.get('r_py', float(r))          # the ratio as the caller / CLI holds it (a Python float)
            out['vn'] = float(ie.numba_mi(Y.reshape(-1, 1).copy(), X.copy(), name, r_glue))
            if c.get('alt') is not None:
                out['vnalt'] = float(ie.numba_mi(Y2.reshape(-1, 1).copy(), X.copy(), name, r_glue))
            # one level further up: conduct_feature_ranking(vector, vector, args) as get_importances_estimate_pairwise calls it, with
            # the ratio in `args`; the worker process serves many cases with other ratios before this one (a library session)
            import types
            a = types.SimpleNamespace(heuristic=name, mi_stratified_sampling_ratio=r_glue)
            out['vc'] = float(ie.conduct_feature_ranking(Y.reshape(-1, 1).copy(), X.copy(), a))
            if c.get('alt') is not None:
                out['vcalt'] = float(ie.conduct_feature_ranking(Y2.reshape(-1, 1).copy(), X.copy(), a))
            if c.get('sample'):
                # the sampler is an INTERNAL helper: its name and signature are the implementation's business.  If it cannot be
                # called the way the unchanged code defines it, the sample is simply not observable (a broken tie, not a failure).
                try:
                    fv, _ = m.numba_unique(X)
                    Ys, Xs = m.stratified_subsampling(Y, X, r, fv)
                    out['Ys'] = [int(v) for v in Ys]
                    out['Xs'] = [int(v) for v in Xs]
                except (TypeError, AttributeError) as e:
                    out['sample_unobservable'] = type(e).__name__ + ':' + str(e)[:100]
        except Exception as e:  # noqa: BLE001
            out['exc'] = type(e).__name__ + ':' + str(e)[:100]
        print(json.dumps(out), flush=True)


if __name__ == '__main__':
    main(sys.argv[1], int(sys.argv[2]))
