#!/bin/bash
# run_all.sh [tier] [seed]: run every registered check; print one line each
cd "$(dirname "$0")/.."
tier=${1:-quick}; seed=${2:-0}
for p in $(python3 -c "import json;print(' '.join(c['property_id'] for c in json.load(open('MANIFEST.json'))['checks']))"); do
  out=$(VERIF_SEED=$seed ./check $p $tier 2>&1); rc=$?
  echo "rc=$rc $(echo "$out" | grep -E '^\[C|VIOLATION|KNOWN-FINDING|ERROR' | tr '\n' ' ' | cut -c1-260)"
done
