"""C16 – line parsers keep every field in its column and never mis-align.
Tie: the real `generic_line_parser` (csv-raw / ob-csv / ob-raw-dump / ob-vw), `parse_ob_csv_line`, `parse_ob_line_vw`,
`parse_namespace` (temp files) and the field-count test inside the real `estimate_importances_minibatches` (temp files,
`compute_batch_ranking` wrapped to record the rows entering every mini-batch) vs the Lean models `C16.csvParse`, `tsvParse`,
`vwParse`, `namespaceMap`, `ingestAll`.
Oracle (on the IMPLEMENTATION's outputs): rendered table rows come back cell for cell (csv: any quoting choice, Python's own
csv.writer included; tab-separated: empty cells anywhere); VW lines equal the Lean `vwSpec` of the line's structure (label,
namespace -> column, absent -> None, value = tokens joined by '-' minus two characters); namespace files equal the Lean `nsSpec`
of the declared entries; rows of the wrong width never enter a mini-batch, rows of the right width enter unchanged."""
from __future__ import annotations

import csv
import io
import logging
import os
import re
import tempfile
import types

from vp_common import Atom, Ctx, InfraError, line, run_driver

PROP = 'C16'
RULE = ('five streams from one PRNG: (1) table rows (width 1..8; empty cells first/last/everywhere; commas, quotes, tabs inside; '
        'unicode; every Py_UNICODE_ISSPACE character at cell edges) rendered as CSV with a random quoting choice per cell or by '
        'Python\'s csv.writer (minimal / all), and as tab-separated lines, terminators \\n, \\r\\n, none, parsed by the real '
        'generic_line_parser; (2) VW lines built from (label, namespace entries, token lists, spacing, absent / unknown / repeated '
        'namespaces); (3) arbitrary short strings over {a b 1 , " space tab e-acute \\n \\r} against parse_ob_csv_line (malformed CSV, '
        'errors as an enum); (4) namespace files (2- and 3-field lines, f32 types, overwritten ids, junk lines) through the real '
        'parse_namespace; (5) whole files through the real streaming loop with rows of the right and of the wrong width; (6) files of 2-4 MiB (14000-26000 rows of mostly multi-byte characters) through the same loop, oracle only. '
        'Non-trivial = a case with an empty edge cell, an edge whitespace character, a quoted cell, an absent namespace, a wrong-width '
        'row or a malformed line; distinct = distinct (format, input line/file).')
ASSUMPTIONS = ['file decoding (utf-8 / latin1) and text-mode line splitting are CPython\'s; lines reaching the parsers contain no line break except their terminator',
               'CPython csv.reader default dialect (doublequote, non-strict, field limit 131072 not reached: cells are short)',
               'lone surrogates excluded (neither a UTF-8 file nor a Lean String can hold them)',
               'VW oracle applies to lines whose label / namespace ids / tokens are non-empty, contain no U+0020 and no "|" and have no '
               'whitespace character at either edge (the code strip()s every part), and whose entries map to pairwise distinct columns; '
               'other VW lines are compared with the model only',
               'namespace oracle applies to files of declared entries whose lines have no edge whitespace, no comma inside a field and, '
               'for two-field lines, no "_" in the id (the code skips those); other files are compared with the model only']

ISSPACE = ['\t', '\x0b', '\x0c', '\x1c', '\x1d', '\x1e', '\x1f', ' ', '\x85', '\xa0', '\u1680'] + \
          [chr(c) for c in range(0x2000, 0x200b)] + ['\u2028', '\u2029', '\u202f', '\u205f', '\u3000']
ISSPACE_ALL = set(ISSPACE) | {'\n', '\r'}
WORDS = ['a', 'b', 'ab', '1', '42', 'x y', 'é', '漢字', '😀', 'feat_1', '-', '_', "'", '\\', 'NA', '0.5', 'a-b', '|', 'a|b']
CSV_FMTS = ['csv-raw', 'ob-csv']
logging.disable(logging.CRITICAL)          # parse_ob_line_vw logs every unknown namespace


# ------------------------------------------------------------------------------------------ generators

def gen_cell(rng, fmt):
    k = rng.random()
    if k < 0.22:
        c = ''
    elif k < 0.45:
        c = rng.choice(WORDS)
    elif k < 0.62:                              # whitespace characters at the edges
        c = rng.choice(WORDS)
        if rng.random() < 0.7:
            c = rng.choice(ISSPACE) + c
        if rng.random() < 0.7:
            c = c + rng.choice(ISSPACE)
    elif k < 0.80:                              # delimiters and quotes inside
        c = ''.join(rng.choice(['a', ',', '"', '""', '\t', ' ', 'b', '","', ',"']) for _ in range(rng.randint(1, 5)))
    elif k < 0.88:
        c = rng.choice(ISSPACE) * rng.randint(1, 2)
    else:
        c = ''.join(rng.choice(['a', 'b', 'é', '"', ',', ' ', '\t', '\xa0', '\u2003', "'", '|', '1']) for _ in range(rng.randint(1, 9)))
    if fmt == 'ob-raw-dump':
        c = c.replace('\t', rng.choice(['', ' ', ';']))
    return c


def gen_row(rng, fmt, width=None):
    w = width if width is not None else rng.choice([1, 1, 2, 2, 3, 3, 4, 5, 8])
    row = [gen_cell(rng, fmt) for _ in range(w)]
    p = rng.random()
    if p < 0.10:
        row = [''] * w
    elif p < 0.25:
        row[0] = ''
    elif p < 0.40:
        row[-1] = ''
    elif p < 0.47:
        row[0] = row[-1] = ''
    return row


def py_render_csv(quote, row):
    out = []
    for i, f in enumerate(row):
        q = bool(quote[i]) or row == [''] or ',' in f or '"' in f
        out.append('"' + f.replace('"', '""') + '"' if q else f)
    return ','.join(out)


def gen_table_case(rng):
    fmt = rng.choice(['csv-raw', 'ob-csv', 'ob-raw-dump', 'ob-raw-dump'])
    row = gen_row(rng, fmt)
    term = rng.choice(['\n', '\n', '\n', '\r\n', ''])
    c = {'kind': 'table', 'fmt': fmt, 'row': row, 'term': term}
    if fmt != 'ob-raw-dump':
        c['renderer'] = rng.choice(['choice', 'choice', 'writer-min', 'writer-all'])
        c['quote'] = [rng.choice([0, 0, 1]) for _ in row] if rng.random() < 0.8 else [rng.choice([0, 1])] * len(row)
        c['delim'] = rng.choice([',', ',', '\t', ';'])
    return c


VW_IDS = ['a', 'b', 'c', 'ab', 'x1', 'é', 'a_b', 'Z', '7', 'n\ts']


def gen_tok(rng, ns):
    k = rng.random()
    if k < 0.45:
        return f'{ns[:1]}_{rng.choice(WORDS[:9]).replace(" ", "")}'.replace('|', '/')
    if k < 0.60:
        return rng.choice(['x', 'xy', 'é', 'a_', '--', '1'])
    if k < 0.75:                                    # whitespace character INSIDE a token (U+0020 excluded)
        return 'p' + rng.choice([s for s in ISSPACE if s != ' ']) + 'q'
    if k < 0.85:                                    # outside the oracle's domain: whitespace character at an edge
        t = 'e' + rng.choice(WORDS[:5]).replace(' ', '')
        return (rng.choice(ISSPACE[:-1]) + t if rng.random() < 0.5 else t + rng.choice([s for s in ISSPACE if s != ' ']))
    return ''.join(rng.choice(['a', '_', '1', 'é', '-', ':', '"', ',']) for _ in range(rng.randint(1, 6)))


def gen_vw_case(rng):
    ids = rng.sample(VW_IDS, rng.randint(1, 6))
    cols = [f'f_{i}' for i in ids]
    if rng.random() < 0.12 and len(cols) > 1:
        cols[-1] = cols[0]                          # two namespaces feeding one column
    nsmap = [[i, c] for i, c in zip(ids, cols)]
    hcols = list(dict.fromkeys(cols))
    if rng.random() < 0.3:
        rng.shuffle(hcols)
    if rng.random() < 0.2:
        hcols.insert(rng.randint(0, len(hcols)), 'not_in_map')
    header = ['label'] + hcols
    present = [i for i in ids if rng.random() < 0.7]
    rng.shuffle(present)
    if rng.random() < 0.1:
        present.insert(rng.randint(0, len(present)), 'unknown')
    if rng.random() < 0.07 and present:
        present.append(present[0])                  # repeated namespace
    entries = []
    for ns in present:
        toks = [[rng.choice([0, 0, 0, 1, 2]), gen_tok(rng, ns)] for _ in range(rng.choice([0, 1, 1, 2, 2, 3, 4]))]
        entries.append([rng.choice([0, 1, 1, 1, 2]), ns, toks])
    label = rng.choice(['1', '-1', '0', '0.5', '1', '-1', 'é', '2', '', '\xa01'])
    extra = [[rng.choice([0, 1]), rng.choice(['0.3', "'tag", 'w'])] for _ in range(rng.choice([0, 0, 0, 1, 2]))]
    return {'kind': 'vw', 'lab': [0, label, extra], 'entries': entries, 'nsmap': nsmap, 'header': header,
            'incl': rng.choice([0, 0, 0, 1]), 'lead': rng.choice(['', '', '', ' ', '\t', '\xa0 ']),
            'trail': rng.choice(['\n', '\n', '\n', '', ' \n', '\r\n', '  ', '\t\n'])}


def py_render_vw(lab, entries):
    def body(e):
        return e[1] + ''.join(' ' * (g + 1) + t for g, t in e[2])
    return body(lab) + ''.join(' ' * e[0] + '|' + body(e) for e in entries)


def vw_tok_ok(t):
    return t != '' and ' ' not in t and '|' not in t and t[0] not in ISSPACE_ALL and t[-1] not in ISSPACE_ALL


def vw_in_domain(c):
    es = [c['lab']] + c['entries']
    if not all(vw_tok_ok(e[1]) and all(vw_tok_ok(t) for _, t in e[2]) for e in es):
        return False
    m = dict(map(tuple, c['nsmap']))
    cols = [m[e[1]] for e in c['entries'] if e[1] in m]
    return len(cols) == len(set(cols))


MAL_ALPHA = ['a', 'b', ',', '"', '\n', '\r', ' ', 'é', '1', '\t', '"', ',']


def gen_malformed_case(rng):
    n = rng.choice([0, 1, 2, 3, 4, 5, 6, 7, 8, 9, 10, 12])
    return {'kind': 'malformed', 's': ''.join(rng.choice(MAL_ALPHA) for _ in range(n))}


NS_IDS = ['a', 'b', 'c', 'ab', 'x1', 'é', 'Z', '7', 'a_b', 'u_', '', 'a b']
NS_TYPES = ['f32', 'f32', 'generic', 'i32', 'F32', 'string', '', 'f32 ', 'f_32']


def gen_ns_case(rng):
    pure = rng.random() < 0.6
    entries, lines = [], []
    for _ in range(rng.choice([0, 1, 2, 3, 5, 8, 12])):
        fid = rng.choice(NS_IDS)
        feat = rng.choice(['feat', 'f_' + fid, 'user_id', 'é', 'a b', 'x', '', 'price', 'f_shared'])
        ty = rng.choice([None, None] + NS_TYPES)
        e = [fid, feat] if ty is None else [fid, feat, ty]
        if pure:
            if ty is None and '_' in fid:
                e = [fid, feat, rng.choice(NS_TYPES)]
            entries.append(e)
            lines.append(','.join(e))
        else:
            k = rng.random()
            if k < 0.55:
                lines.append(','.join(e))
            elif k < 0.65:
                lines.append(rng.choice(['', ' ', '# comment', 'only_one_field', 'a,b,c,d', 'a,b,f32,extra', ',', ',,', '\t']))
            elif k < 0.80:
                lines.append(rng.choice(ISSPACE) + ','.join(e) + rng.choice(ISSPACE))
            else:
                lines.append(','.join([fid, feat + rng.choice(ISSPACE)] + ([ty] if ty is not None and rng.random() < 0.5 else [])))
    nl = rng.choice(['\n', '\n', '\n', '\r\n'])
    content = nl.join(lines) + (nl if rng.random() < 0.8 and lines else ('\n' if pure and not lines and rng.random() < 0.5 else ''))
    c = {'kind': 'ns', 'content': content}
    if pure and all(ns_line_ok(e) for e in entries):
        c['entries'] = entries
    return c


def ns_line_ok(e):
    ln = ','.join(e)
    if any(',' in f or '\n' in f or '\r' in f for f in e):
        return False
    if len(e) == 2 and '_' in e[0]:
        return False
    return ln == '' or (ln[0] not in ISSPACE_ALL and ln[-1] not in ISSPACE_ALL)


def gen_stream_case(rng):
    fmt = rng.choice(['csv-raw', 'ob-csv', 'ob-raw-dump', 'ob-vw'])
    c = {'kind': 'stream', 'fmt': fmt, 'mb': rng.choice([1, 1, 1, 2, 3])}
    nlines = rng.choice([0, 1, 2, 5, 9, 14])
    if fmt == 'ob-vw':
        v = gen_vw_case(rng)
        c.update(nsmap=v['nsmap'], header=v['header'])
        items = []
        for _ in range(nlines):
            w = gen_vw_case(rng)
            known = [i for i, _ in v['nsmap']]
            ks = rng.sample(known, min(len(known), len(w['entries'])))
            es = [[e[0], k2, e[2]] for e, k2 in zip(w['entries'], ks)]
            items.append({'vw': [w['lab'], es], 'text': py_render_vw(w['lab'], es)})
        c['items'] = items
    else:
        n = rng.choice([1, 2, 3, 4, 6])
        c['header'] = [f'c{i}' for i in range(n)]
        items = []
        for _ in range(nlines):
            k = rng.random()
            if k < 0.55:
                w = n
            elif k < 0.90:
                w = max(1, n + rng.choice([-2, -1, 1, 1, 2, 3]))
                w = w if w != n else n + 1
            else:
                w = None                                                   # malformed text (csv only), model-compared
            if w is None and fmt != 'ob-raw-dump':
                items.append({'text': ''.join(rng.choice(['a', ',', '"', ' ', 'b', '""']) for _ in range(rng.randint(1, 8)))})
                continue
            row = gen_row(rng, fmt, w or n)
            if row == [''] and fmt == 'ob-raw-dump':
                row = ['x']                                                # an empty physical line is not a one-cell row here
            text = '\t'.join(row) if fmt == 'ob-raw-dump' else py_render_csv([rng.choice([0, 0, 1]) for _ in row], row)
            items.append({'row': row, 'text': text})
        c['items'] = items
    c['final_nl'] = 1 if (not c['items'] or c['items'][-1]['text'] == '' or rng.random() < 0.7) else 0
    return c


# ------------------------------------------------------------------------------------------ implementation runners

def outcome(f):
    try:
        return f()
    except Exception as e:                                       # noqa: BLE001 – outcome enum
        return Atom('raises:' + type(e).__name__)


def impl_table(c, text):
    from outrank.core_utils import generic_line_parser
    args = types.SimpleNamespace(data_source=c['fmt'])
    # CSV sources: the delimiter argument is the caller's (the ranking task passes ',', the instance-ranking task and the default
    # of estimate_importances_minibatches pass a tab); a CSV line is comma-separated whatever arrives here
    delim = '\t' if c['fmt'] == 'ob-raw-dump' else c.get('delim', ',')
    return outcome(lambda: generic_line_parser(text, delim, args, None, None))


def impl_vw(c, text):
    from outrank.core_utils import generic_line_parser, parse_ob_line_vw
    m = {k: v for k, v in c['nsmap']}
    if c['incl']:
        return outcome(lambda: parse_ob_line_vw(text, None, None, m, c['header'], include_namespace_info=True))
    return outcome(lambda: generic_line_parser(text, None, types.SimpleNamespace(data_source='ob-vw'), m, c['header']))


def impl_ns(content):
    from outrank.core_utils import parse_namespace
    with tempfile.TemporaryDirectory(prefix='c16_') as d:
        p = os.path.join(d, 'vw_namespace_map.csv')
        with open(p, 'w', newline='') as fh:
            fh.write(content)
        fl, mp = parse_namespace(p)
    return [sorted(fl), [[k, v] for k, v in mp.items()]]


class _Logger:
    def __init__(self):
        self.msgs = []

    def info(self, m):
        self.msgs.append(str(m))


def stream_text(c):
    lines = [it['text'] for it in c['items']]
    hdr = ('\t' if c['fmt'] == 'ob-raw-dump' else ',').join(c['header'])
    body = '\n'.join(lines)
    return hdr + '\n' + body + ('\n' if c['final_nl'] and lines else '')


def stream_lines_seen(c):
    """the data lines exactly as text-mode iteration hands them to the loop"""
    txt = stream_text(c)
    ls = txt.split('\n')
    out = [l + '\n' for l in ls[:-1]] + ([ls[-1]] if ls[-1] != '' else [])
    return out[1:]


def impl_stream(c):
    from outrank import core_ranking as cr
    from outrank.core_utils import BatchRankingSummary
    batches = []

    def fake(lines, *a, **k):
        batches.append([list(r) for r in lines])
        return BatchRankingSummary([], {}), {}, {}, {}
    args = types.SimpleNamespace(data_source=c['fmt'], subsampling=1, minibatch_size=c['mb'], disable_tqdm='True', heuristic='Constant')
    lg = _Logger()
    old = (cr.compute_batch_ranking, cr.checkpoint_importances_df)
    cr.compute_batch_ranking, cr.checkpoint_importances_df = fake, (lambda *_a, **_k: None)
    try:
        with tempfile.TemporaryDirectory(prefix='c16_') as d:
            p = os.path.join(d, 'data.csv')
            with open(p, 'w', encoding='utf-8', newline='') as fh:
                fh.write(stream_text(c))
            nsmap = {k: v for k, v in c['nsmap']} if c['fmt'] == 'ob-vw' else None
            cr.estimate_importances_minibatches(p, c['header'], nsmap, set(), args=args, data_encoding='utf-8', cpu_pool=None,
                                                delimiter='\t' if c['fmt'] == 'ob-raw-dump' else ',', logger=lg)
    finally:
        cr.compute_batch_ranking, cr.checkpoint_importances_df = old
    inv = 0
    for m in lg.msgs:
        mm = re.match(r'Detected (\d+) invalid lines', m)
        if mm:
            inv = int(mm.group(1))
    return [r for b in batches for r in b], inv


def writer_render(row, mode, term):
    s = io.StringIO()
    csv.writer(s, quoting=csv.QUOTE_ALL if mode == 'writer-all' else csv.QUOTE_MINIMAL, lineterminator=term).writerow(row)
    return s.getvalue()


def unnone(v):
    """wire -> python: Atom('none') -> None"""
    if isinstance(v, list):
        return [unnone(x) for x in v]
    return None if v == Atom('none') else v


# ------------------------------------------------------------------------------------------ evaluate

def table_text(c):
    if c['fmt'] == 'ob-raw-dump':
        return '\t'.join(c['row']) + c['term']
    if c['renderer'] == 'choice':
        return py_render_csv(c['quote'], c['row']) + c['term']
    return writer_render(c['row'], c['renderer'], c['term'])


def requests(c):
    k = c['kind']
    A = Atom
    if k == 'table':
        text = table_text(c)
        if c['fmt'] == 'ob-raw-dump':
            return [line(A(PROP), A('tsv'), '\t', text)]
        q = c['quote'] if c['renderer'] == 'choice' else ([1] * len(c['row']) if c['renderer'] == 'writer-all' else [0] * len(c['row']))
        return [line(A(PROP), A('csv'), text), line(A(PROP), A('render'), q, c['row'])]
    if k == 'vw':
        text = c['lead'] + py_render_vw(c['lab'], c['entries']) + c['trail']
        spec_es = [[e[1], [t for _, t in e[2]]] for e in c['entries']]
        return [line(A(PROP), A('vw'), c['nsmap'], c['header'], c['incl'], text),
                line(A(PROP), A('vwrender'), c['lab'], c['entries']),
                line(A(PROP), A('vwspec'), c['nsmap'], c['header'], c['incl'], c['lab'][1], spec_es)]
    if k == 'malformed':
        return [line(A(PROP), A('csv'), c['s'])]
    if k == 'ns':
        r = [line(A(PROP), A('ns'), c['content'])]
        if 'entries' in c:
            r.append(line(A(PROP), A('nsspec'), c['entries']))
        return r
    if k == 'stream':
        ls = stream_lines_seen(c)
        n = len(c['header'])
        if c['fmt'] == 'ob-vw':
            r = [line(A(PROP), A('ingest'), A('vw'), n, c['nsmap'], c['header'], ls)]
            for it in c['items']:
                lab, es = it['vw']
                r.append(line(A(PROP), A('vwspec'), c['nsmap'], c['header'], 0, lab[1], [[e[1], [t for _, t in e[2]]] for e in es]))
            return r
        if c['fmt'] == 'ob-raw-dump':
            return [line(A(PROP), A('ingest'), A('tsv'), n, '\t', ls)]
        return [line(A(PROP), A('ingest'), A('csv'), n, ls)]
    raise InfraError(f'unknown case kind {k}')


def shrink_row(c, fails):
    """greedy: drop cells, then characters, while the oracle still fails"""
    row = list(c['row'])
    changed = True
    while changed:
        changed = False
        for i in range(len(row)):
            if len(row) > 1:
                r2 = row[:i] + row[i + 1:]
                if fails({**c, 'row': r2, 'quote': [0] * len(r2)}):
                    row, changed = r2, True
                    break
            for j in range(len(row[i])):
                r2 = row[:i] + [row[i][:j] + row[i][j + 1:]] + row[i + 1:]
                if fails({**c, 'row': r2, 'quote': [0] * len(r2)}):
                    row, changed = r2, True
                    break
            if changed:
                break
    return {**c, 'row': row, 'quote': [0] * len(row)} if row != c['row'] else c


def evaluate(ctx: Ctx, cases, oracle_only=False):
    req, spans = [], []
    for c in cases:
        r = requests(c)
        spans.append((len(req), len(r)))
        req += r
    rep = run_driver(req)
    for c, (a, n) in zip(cases, spans):
        ctx.evaluations += 1
        r = [unnone(x) for x in rep[a:a + n]]
        getattr(_Eval, c['kind'])(ctx, c, r, oracle_only)


class _Eval:
    @staticmethod
    def table(ctx, c, r, oracle_only):
        row, fmt = c['row'], c['fmt']
        text = table_text(c)
        got = impl_table(c, text)
        ctx.count('table:' + fmt)
        if fmt != 'ob-raw-dump':
            ctx.count('csv-delimiter-argument:' + repr(c.get('delim', ',')))
        ctx.count('term:' + repr(c['term']))
        edge_empty = row[0] == '' or row[-1] == ''
        edge_ws = any(x and (x[0] in ISSPACE_ALL or x[-1] in ISSPACE_ALL) for x in row)
        quoted = fmt != 'ob-raw-dump' and '"' in text
        if edge_empty:
            ctx.count('table:empty-edge-cell')
        if edge_ws:
            ctx.count('table:edge-whitespace')
        if quoted:
            ctx.count('table:quoted')
        if edge_empty or edge_ws or quoted:
            ctx.nontrivial.add((fmt, text))
        if fmt == 'ob-raw-dump':
            model = r[0]
        else:
            model = r[0][1] if isinstance(r[0], list) else r[0]
            ctx.count('renderer:' + c['renderer'])
            if r[1] + c['term'] != text:
                if c['renderer'] == 'choice':
                    raise InfraError(f'harness renderer {text!r} != Lean renderRow {r[1]!r}')
                ctx.count('csv.writer-output-outside-renderRow')     # the round-trip theorem would not cover this writer output
                if len(ctx.notes) < 5:
                    ctx.notes.append(f'csv.writer {c["renderer"]} wrote {text!r}, renderRow {r[1]!r}')
        if not oracle_only:
            ctx.traces += 1
            if got != model:
                ctx.corr_fail(f'parse:{fmt}', f'{fmt} line {text!r}: impl {got!r}, model {model!r}', c)
        if got != row:
            def fails(c2):
                return impl_table(c2, table_text(c2)) != c2['row']
            c2 = shrink_row({**c, 'renderer': 'choice'} if fmt != 'ob-raw-dump' else c, fails)
            c2 = c2 if fails(c2) else c
            t2 = table_text(c2)
            key = 'tsv-fields' if fmt == 'ob-raw-dump' else 'csv-fields'
            ctx.oracle_fail(key, f'{fmt}: the row {c2["row"]!r} written as the line {t2!r} is parsed into {impl_table(c2, t2)!r}', c2)
        ctx.sample({'kind': 'table', 'fmt': fmt, 'line': text, 'impl': got})

    @staticmethod
    def vw(ctx, c, r, oracle_only):
        text = c['lead'] + py_render_vw(c['lab'], c['entries']) + c['trail']
        if r[1] != py_render_vw(c['lab'], c['entries']):
            raise InfraError(f'harness VW renderer != Lean vwRender on {c!r}')
        got = impl_vw(c, text)
        model, spec = r[0], r[2]
        dom = vw_in_domain(c)
        ctx.count('vw:in-domain' if dom else 'vw:outside-oracle-domain')
        m = dict(map(tuple, c['nsmap']))
        absent = any(col not in [m.get(e[1]) for e in c['entries']] for col in c['header'][1:])
        if absent:
            ctx.count('vw:absent-namespace')
        if dom and (absent or len(c['entries']) > 1):
            ctx.nontrivial.add(('vw', text, c['incl'], tuple(c['header'])))
        if not oracle_only:
            ctx.traces += 1
            if got != model:
                ctx.corr_fail('parse:ob-vw', f'VW line {text!r} map={c["nsmap"]} header={c["header"]}: impl {got!r}, model {model!r}', c)
        if dom and got != spec:
            if not isinstance(got, list) or len(got) != len(c['header']):
                key = 'vw-arity'
            elif got[0] != spec[0]:
                key = 'vw-label'
            elif any(g is None and s is not None or g is not None and s is None for g, s in zip(got, spec)):
                key = 'vw-absent'
            else:
                key = 'vw-alignment'
            ctx.oracle_fail(key, f'VW line {text!r} with map {c["nsmap"]} and header {c["header"]} (include_namespace_info={bool(c["incl"])}) '
                            f'is parsed into {got!r}; the line\'s label/namespaces demand {spec!r}', c)
        ctx.sample({'kind': 'vw', 'line': text, 'impl': got}, limit=8)

    @staticmethod
    def malformed(ctx, c, r, oracle_only):
        from outrank.core_utils import parse_ob_csv_line
        got = outcome(lambda: parse_ob_csv_line(c['s']))
        model = r[0][1] if isinstance(r[0], list) else r[0]
        ctx.count('malformed:' + (str(got) if isinstance(got, Atom) else 'ok'))
        ctx.nontrivial.add(('mal', c['s']))
        if not oracle_only:
            ctx.traces += 1
            if got != model:
                ctx.corr_fail('parse:csv-malformed', f'csv text {c["s"]!r}: impl {got!r}, model {model!r}', c)

    @staticmethod
    def ns(ctx, c, r, oracle_only):
        got = outcome(lambda: impl_ns(c['content']))
        model = [sorted(r[0][0]), r[0][1]]
        ctx.count('ns:declared-entries' if 'entries' in c else 'ns:free-form')
        ctx.nontrivial.add(('ns', c['content']))
        if not oracle_only:
            ctx.traces += 1
            if got != model:
                ctx.corr_fail('namespace', f'namespace file {c["content"]!r}: impl {got!r}, model {model!r}', c)
        if 'entries' in c:
            spec = [sorted(r[1][0]), r[1][1]]
            if not isinstance(got, list) or got[1] != spec[1]:
                ctx.oracle_fail('ns-map', f'namespace file {c["content"]!r} declares {spec[1]!r} but parse_namespace returned {got!r}', c)
            elif got[0] != spec[0]:
                ctx.oracle_fail('ns-floats', f'namespace file {c["content"]!r} declares the f32 features {spec[0]!r} but parse_namespace returned {got[0]!r}', c)
        ctx.sample({'kind': 'ns', 'content': c['content'], 'impl': got}, limit=10)

    @staticmethod
    def stream(ctx, c, r, oracle_only):
        got = outcome(lambda: list(impl_stream(c)))
        n, fmt, mb = len(c['header']), c['fmt'], c['mb']
        ctx.count('stream:' + fmt)
        mrows, minv = r[0]
        if not oracle_only:
            ctx.traces += 1
            keep = (len(mrows) // mb) * mb                    # rows of an unfinished last batch are C08's business
            if isinstance(got, Atom) or got[0] != mrows[:keep] or got[1] != minv:
                ctx.corr_fail(f'stream:{fmt}', f'{fmt} file {stream_text(c)!r} (header width {n}, minibatch {mb}): batches/invalid impl {got!r}, model {[mrows[:keep], minv]!r}', c)
        # oracle: rows of the right width enter unchanged and in order, rows of any other width never enter
        exp, bad, free = [], 0, False
        for i, it in enumerate(c['items']):
            if fmt == 'ob-vw':
                exp.append(r[1 + i])
                free = free or not vw_in_domain({'lab': it['vw'][0], 'entries': it['vw'][1], 'nsmap': c['nsmap']})
            elif 'row' not in it:
                free = True
            elif len(it['row']) == n:
                exp.append(it['row'])
            else:
                bad += 1
                ctx.count('stream:wrong-width-row')
        if bad:
            ctx.nontrivial.add(('stream', fmt, stream_text(c)))
        if free:
            ctx.count('stream:with-free-form-lines(model-compared only)')
        elif isinstance(got, Atom):
            ctx.oracle_fail('stream-raises', f'{fmt} file {stream_text(c)!r}: the streaming loop raised {got}', c)
        else:
            keep = (len(exp) // mb) * mb
            if got[0] != exp[:keep]:
                wrong = [x for x in got[0] if len(x) != n]
                key = 'arity-reject' if wrong or len(got[0]) > keep else 'batch-row'
                ctx.oracle_fail(key, f'{fmt} file {stream_text(c)!r} (header width {n}, minibatch {mb}): rows that entered mini-batches {got[0]!r}; '
                                f'the well-formed rows of width {n} are {exp[:keep]!r}', c)
            elif got[1] != bad:
                ctx.oracle_fail('arity-count', f'{fmt} file {stream_text(c)!r}: {bad} rows of the wrong width but {got[1]} lines reported invalid', c)
        ctx.sample({'kind': 'stream', 'fmt': fmt, 'file': stream_text(c), 'impl': got}, limit=12)


def corpus():
    tsv = lambda row, term='\n': {'kind': 'table', 'fmt': 'ob-raw-dump', 'row': row, 'term': term}        # noqa: E731
    cs = lambda row, q, term='\n', fmt='csv-raw': {'kind': 'table', 'fmt': fmt, 'row': row, 'term': term, 'renderer': 'choice', 'quote': q}   # noqa: E731
    return [
        tsv(['a', 'b', '']), tsv(['', 'a', 'b']), tsv([' a', 'b ']), tsv(['', '']), tsv(['a', 'b', ''], '\r\n'), tsv(['a', ''], ''),   # F10
        tsv(['x\xa0', '\u2028']), tsv(['']),
        cs([''], [0]), cs(['', ''], [0, 0]), cs(['a,b', 'c"d', ''], [0, 0, 1]), cs(['"'], [0], ''), cs([' a ', '\t'], [1, 0], '\r\n', 'ob-csv'),
        {'kind': 'malformed', 's': 'a\nb'}, {'kind': 'malformed', 's': '"a'}, {'kind': 'malformed', 's': 'a"b",c'}, {'kind': 'malformed', 's': '"a"b,c\r\n'},
        {'kind': 'vw', 'lab': [0, '1', []], 'entries': [[1, 'a', [[0, 'a_x'], [0, 'a_y']]], [1, 'c', [[0, 'c_1']]]],
         'nsmap': [['a', 'fa'], ['b', 'fb'], ['c', 'fc']], 'header': ['label', 'fa', 'fb', 'fc'], 'incl': 0, 'lead': '', 'trail': '\n'},
        {'kind': 'ns', 'content': 'a,feat_a,f32\nb,feat_b\nc_d,feat_c,generic\n', 'entries': [['a', 'feat_a', 'f32'], ['b', 'feat_b'], ['c_d', 'feat_c', 'generic']]},
        {'kind': 'ns', 'content': 'a_b,feat\nx,y,f32,z\n\nb,feat,f32'},
        {'kind': 'stream', 'fmt': 'csv-raw', 'mb': 1, 'header': ['c0', 'c1', 'c2'], 'final_nl': 1,
         'items': [{'row': ['1', '2', '3'], 'text': '1,2,3'}, {'row': ['1', '2', '3', '4'], 'text': '1,2,3,4'}, {'row': ['1', '2'], 'text': '1,2'},
                   {'row': ['', 'x,y', ''], 'text': ',"x,y",'}]},
        {'kind': 'stream', 'fmt': 'ob-raw-dump', 'mb': 1, 'header': ['c0', 'c1', 'c2'], 'final_nl': 1,
         'items': [{'row': ['1', '2', ''], 'text': '1\t2\t'}, {'row': ['', '', ''], 'text': '\t\t'}, {'row': ['1', '2'], 'text': '1\t2'}]},
    ]


def big_rows(spec):
    """rows of a file of several MiB whose cells are mostly multi-byte characters (2, 3 and 4 bytes in UTF-8): wherever a reader
    cuts the byte stream, it most probably cuts inside a character"""
    import random
    r = random.Random(f'big:{spec["seed"]}')
    words = ['São Paulo', 'ñandú', '日本語テキスト', 'Ünïcödé', '😀😀', 'Ελληνικά', 'žluťoučký', 'naïve café', 'Москва', '한국어']
    rows = []
    for i in range(spec['nrows']):
        rows.append([str(i)] + [r.choice(words) * r.randint(1, 3) for _ in range(spec['n'] - 1)])
    return rows


def evaluate_big_stream(ctx: Ctx, specs):
    """tab-separated / comma-separated files of 2..4 MiB through the real streaming loop: every well-formed row enters a
    mini-batch with exactly its fields, in order (oracle only: the property's own clause; the model is not run on 10^4 rows)"""
    for spec in specs:
        rows = big_rows(spec)
        fmt = spec['fmt']
        c = {'kind': 'stream', 'fmt': fmt, 'mb': spec['mb'], 'header': [f'c{i}' for i in range(spec['n'])], 'final_nl': 1,
             'items': [{'row': r, 'text': ('\t' if fmt == 'ob-raw-dump' else ',').join(r)} for r in rows]}
        ctx.evaluations += 1
        ctx.count('stream-big:' + fmt)
        size = len(stream_text(c).encode('utf-8'))
        got = outcome(lambda: list(impl_stream(c)))
        show = f'{fmt} file of {size} bytes, {len(rows)} rows of {spec["n"]} fields with multi-byte characters (generated from seed {spec["seed"]}), minibatch {spec["mb"]}'
        if isinstance(got, Atom):
            ctx.oracle_fail('stream-raises', f'{show}: the streaming loop raised {got}', {'bigstream': spec})
            continue
        keep = (len(rows) // spec['mb']) * spec['mb']
        if got[0] != rows[:keep]:
            i = next((i for i, (a, b) in enumerate(zip(got[0], rows)) if a != b), min(len(got[0]), keep))
            ctx.oracle_fail('batch-row', f'{show}: row {i} entered as {got[0][i] if i < len(got[0]) else None!r}, the file has {rows[i]!r} '
                            f'({len(got[0])} rows entered, {keep} expected)', {'bigstream': spec})
        elif got[1] != 0:
            ctx.oracle_fail('arity-count', f'{show}: no malformed row but {got[1]} lines reported invalid', {'bigstream': spec})


def big_specs(rng, k):
    return [{'fmt': rng.choice(['ob-raw-dump', 'ob-raw-dump', 'csv-raw']), 'n': rng.choice([3, 4, 6]), 'nrows': rng.choice([14000, 20000, 26000]),
             'mb': rng.choice([1000, 2000]), 'seed': rng.randrange(10 ** 6)} for _ in range(k)]


def replay(ctx: Ctx, payload):
    c = payload['case']
    if isinstance(c, dict) and 'bigstream' in c:
        evaluate_big_stream(ctx, [c['bigstream']])
    else:
        evaluate(ctx, [c])


def gen_cases(rng, n_table, n_vw, n_mal, n_ns, n_stream):
    return ([gen_table_case(rng) for _ in range(n_table)] + [gen_vw_case(rng) for _ in range(n_vw)] +
            [gen_malformed_case(rng) for _ in range(n_mal)] + [gen_ns_case(rng) for _ in range(n_ns)] +
            [gen_stream_case(rng) for _ in range(n_stream)])


def run(ctx: Ctx):
    k = 60 if ctx.thorough() else 1
    evaluate(ctx, corpus() + gen_cases(ctx.rng, 3000 * k, 1200 * k, 3000 * k, 300 * k, 150 * k))
    evaluate_big_stream(ctx, big_specs(ctx.rng, 6 if ctx.thorough() else 2))
    ctx.extra['excluded_regions'] = {k2: v for k2, v in ctx.dist.items() if 'outside' in k2 or 'free-form' in k2}


def search(ctx: Ctx):
    """extended failing-input search (oracle only, bigger budget)"""
    sub = Ctx(ctx.prop, ctx.tier)
    sub.rng.seed(f'search:{ctx.seed}')
    evaluate(sub, corpus() + gen_cases(sub.rng, 24000, 9600, 0, 2400, 1200), oracle_only=True)
    evaluate_big_stream(sub, big_specs(sub.rng, 3))
    return sub.oracle_failures
