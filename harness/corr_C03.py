"""C03 – cardinality correction subtracts the displaced-copy noise floor.
Tie: real njit estimator with correction on (and `numba_mi` for the name -> flag mapping) vs the Lean model.
Oracle: H(Y*|X) - H(Y|X) (Lean `correctedSpecL`, proved equal to the finset form), the zero / entropy corollaries, and the
MEASURED ranking corollary on the planted-signal family (statistical; not a theorem)."""
from __future__ import annotations

import logging
import types
from fractions import Fraction

import numpy as np

from mi_common import est_line, gen_pair, impl_mi, kernel_key, tol
from vp_common import Atom, Ctx, line, run_driver

PROP = 'C03'
RULE = ('C01 pair families with correction on, plus BIJECTION pairs (feature and target in one-to-one correspondence row by row, not equal); numba_mi called on int64 / uint32 / uint64 / int16 vectors for every tenth pair and every bijection pair; a pipeline family (small integer-coded frames, label at every column position, '
        'target-only and pairwise scope, real get_combinations_from_columns + get_importances_estimate_pairwise: every pair containing '
        'the label must carry the corrected score of the FEATURE against the LABEL); plus the planted-signal family (binary target, 15% flips, independent noise of '
        'cardinality 2,4,16,256,n/4,n) at n in {4000,16000} for the measured ranking corollary. Non-trivial = both sides '
        'non-constant, Y != X, Y not all-distinct; distinct = distinct partition structure.')
ASSUMPTIONS = ['float32 rounding tolerance 4e-6*(1+ln n)',
               'the ranking corollary ("informative low-cardinality feature outranks independent noise for all seeds") is a statement '
               'about the RNG, false for adversarial noise vectors: it is measured (minimum margin recorded), not proved']
NAMES = ['MI-numba-randomized', 'MI-numba-3mr', 'MI-numba', 'MI-numba-randomized-ap', 'MI-numba-ap']


def evaluate(ctx: Ctx, cases, oracle_only=False):
    from outrank.algorithms import importance_estimator as ie
    req = []
    for fam, Y, X in cases:
        req.append(est_line(Y, X, Fraction(1), True))
        req.append(line(Atom('MI'), Atom('entropy'), X) if Y == X else line(Atom('MI'), Atom('corrected'), Y, X))
    rep = run_driver(req)
    for k, (fam, Y, X) in enumerate(cases):
        model, spec = rep[2 * k], rep[2 * k + 1]
        n = len(X)
        t = tol(n)
        ctx.evaluations += 1
        ctx.count('family:' + fam)
        if len(set(Y)) > 1 and len(set(X)) > 1 and Y != X and len(set(Y)) < n:
            ctx.nontrivial.add(hash(kernel_key(Y, X)))
        a = impl_mi(Y, X, 1.0, True)
        case = {'family': fam, 'Y': Y, 'X': X}
        short = f'family={fam} n={n} Y={Y[:12]}{"…" if n > 12 else ""} X={X[:12]}{"…" if n > 12 else ""}'
        if not oracle_only:
            ctx.traces += 1
            if not abs(a - model) <= t:
                ctx.corr_fail('estimator', f'{short}: impl {a!r} vs model {model!r}', case)
        if not abs(a - spec) <= t:
            ctx.oracle_fail('identity', f'{short}: corrected score {a!r} != ' + ('entropy' if Y == X else 'H(Y*|X)-H(Y|X)') + f' = {spec!r}', case)
        elif Y != X and len(set(Y)) == 1 and abs(a) > t:
            ctx.oracle_fail('constant', f'{short}: constant feature scores {a!r}', case)
        elif Y != X and len(set(Y)) == n and abs(a) > t:
            ctx.oracle_fail('all-distinct', f'{short}: all-distinct feature scores {a!r}', case)
        # name -> flag: only MI-numba-randomized switches the correction on
        if (k % 10 == 0 or fam == 'bijection') and n <= 500:
            # the vectors as a library caller may hold them: numpy's default int64, unsigned or narrow integer dtypes
            fits16 = max(max(Y), max(X)) < 2 ** 15
            dt = [np.int64, np.int64, np.uint32, np.int16 if fits16 else np.int64, np.uint64][k % 5]
            ctx.count('numba_mi-dtype:' + np.dtype(dt).name)
            vf = np.asarray(Y, dtype=dt).reshape(-1, 1)
            vs = np.asarray(X, dtype=dt)
            plain = impl_mi(Y, X, 1.0, False)
            for name in NAMES:
                got = float(ie.numba_mi(vf, vs, name, 1.0))
                want = a if name == 'MI-numba-randomized' else plain
                ctx.count('flag-checks')
                if abs(got - want) > 1e-7:
                    ctx.oracle_fail('flag:' + name, f'{short}: numba_mi(heuristic={name!r}) on {np.dtype(dt).name} vectors = {got!r}, expected the '
                                    + ('corrected' if name == 'MI-numba-randomized' else 'uncorrected') + f' score {want!r}', {**case, 'name': name})
        if fam in ('planted', 'zipf'):
            ctx.sample({'family': fam, 'n': n, 'Y': Y[:12], 'X': X[:12], 'impl': a, 'spec': spec})


# ---------------------------------------------------------------------------------------------
# the heuristic as the pipeline applies it: "the score of FEATURE Y against TARGET X" – the label must be the conditioning side
# whatever the column order and the ranking scope (get_combinations_from_columns -> get_importances_estimate_pairwise)

def gen_pipeline_case(rng):
    n = rng.choice([4, 6, 12, 40, 150])
    nf = rng.randint(1, 3)
    label = [rng.randrange(rng.choice([2, 2, 3])) for _ in range(n)]
    cols = []
    for j in range(nf):
        fam = rng.choice(['noisy', 'indep', 'const', 'distinct', 'copy', 'func'])
        if fam == 'noisy':
            c = [y if rng.random() > 0.2 else rng.randrange(3) for y in label]
        elif fam == 'indep':
            k = rng.choice([2, 3, 7, max(2, n // 2)])
            c = [rng.randrange(k) for _ in range(n)]
        elif fam == 'const':
            c = [1] * n
        elif fam == 'distinct':
            c = rng.sample(range(n), n)
        elif fam == 'copy':
            c = label[:]
        else:
            c = [(y * 2 + 1) % 3 for y in label]
        cols.append([f'f{j}', c])
    cols.insert(rng.randint(0, nf), ['label', label])       # label anywhere in the column order
    return {'cols': cols, 'label': 'label', 'target_only': rng.random() < 0.5}


def evaluate_pipeline(ctx: Ctx, cases, oracle_only=False):
    import pandas as pd
    from outrank import core_ranking as cr
    from outrank.algorithms import importance_estimator as ie
    req, metas = [], []
    for c in cases:
        df = pd.DataFrame({nm: np.asarray(v, dtype=np.int32) for nm, v in c['cols']})
        args = types.SimpleNamespace(heuristic='MI-numba-randomized', label_column=c['label'], mi_stratified_sampling_ratio=1.0,
                                     target_ranking_only='True' if c['target_only'] else 'False', reference_model_JSON='',
                                     combination_number_upper_bound=2 ** 15)
        d = dict((a, b) for a, b in c['cols'])
        ctx.evaluations += 1
        ctx.count('pipeline:' + ('target-only' if c['target_only'] else 'pairwise'))
        ctx.count('pipeline:label-position=%d/%d' % ([a for a, _ in c['cols']].index(c['label']), len(c['cols']) - 1))
        logging.disable(logging.CRITICAL)        # numba_mi logs a warning for every 1-d feature vector
        try:
            combos = cr.get_combinations_from_columns(df.columns, args)
            trip = [ie.get_importances_estimate_pairwise(cb, [], args, df) for cb in combos]
        except Exception as e:     # noqa: BLE001
            ctx.oracle_fail('pipeline-raises', f'pipeline on {c}: {type(e).__name__}: {e}', c)
            continue
        finally:
            logging.disable(logging.NOTSET)
        for a, b, s in trip:
            if c['label'] not in (a, b):
                continue
            f = b if a == c['label'] else a          # the feature of the pair; the label is the target
            Y, X = d[f], d[c['label']]
            req.append(line(Atom('MI'), Atom('entropy'), X) if Y == X else line(Atom('MI'), Atom('corrected'), Y, X))
            metas.append((c, a, b, float(s), Y, X))
    rep = run_driver(req) if req else []
    for (c, a, b, s, Y, X), spec in zip(metas, rep):
        t = tol(len(X))
        if len(set(Y)) > 1 and len(set(X)) > 1 and Y != X:
            ctx.nontrivial.add(hash(('pipe', kernel_key(Y, X), a == c['label'])))
        if not abs(s - spec) <= t:
            ctx.oracle_fail('pipeline-orientation', f'columns {[x for x, _ in c["cols"]]} label={c["label"]!r} target_only={c["target_only"]}: pair ({a!r}, {b!r}) '
                            f'scored {s!r}, but the corrected score of the feature against the label is {spec!r} '
                            f'(feature={Y[:12]} label={X[:12]})', c)


def planted(ctx: Ctx, seeds, n):
    """measured corollary: min margin score(signal) - max score(noise), corrected vs uncorrected"""
    worst_c, worst_u = float('inf'), float('inf')
    for s in seeds:
        rs = np.random.RandomState(s)
        X = rs.randint(0, 2, n)
        flips = rs.rand(n) < 0.15
        sig = np.where(flips, 1 - X, X)
        noise = [rs.randint(0, k, n) for k in (2, 4, 16, 256, n // 4, n)]
        sc = impl_mi(sig.tolist(), X.tolist(), 1.0, True)
        su = impl_mi(sig.tolist(), X.tolist(), 1.0, False)
        mc = sc - max(impl_mi(z.tolist(), X.tolist(), 1.0, True) for z in noise)
        mu = su - max(impl_mi(z.tolist(), X.tolist(), 1.0, False) for z in noise)
        ctx.evaluations += 1
        ctx.count('planted-seeds')
        worst_c, worst_u = min(worst_c, mc), min(worst_u, mu)
        if mc <= 0:
            ctx.oracle_fail('ranking-corollary', f'planted family n={n} numpy RandomState({s}): corrected margin {mc!r} <= 0', {'seed': s, 'n': n})
    return worst_c, worst_u


def gen_bijection(rng):
    """feature and target in one-to-one correspondence row by row without being equal (two id columns, a recoded copy)"""
    n = rng.choice([2, 3, 4, 8, 30, 120, 400])
    k = rng.choice([n, n, max(2, n // 3), 5, 2])
    X = [rng.randrange(k) for _ in range(n)] if k < n else rng.sample(range(n), n)
    codes = rng.sample(range(0, rng.choice([k + 3, 1000, 700000])), len(set(X))) if rng.random() < 0.7 else None
    m = dict(zip(sorted(set(X)), codes)) if codes else {v: v + 1 for v in set(X)}
    Y = [m[x] for x in X]
    if Y == X:
        Y = [y + 1 for y in Y]
    if rng.random() < 0.3:
        X = [x + rng.choice([0, 100000]) for x in X]
    return 'bijection', Y, X


def evaluate_hugecodes(ctx: Ctx, cases):
    """raw identifiers used directly as codes (beyond 2^24, below 2^26): through numba_mi the pair must score like the same pair
    under dense codes (C02's invariance), with the correction on for MI-numba-randomized and off for the other names"""
    import numpy as np
    from outrank.algorithms import importance_estimator as ie
    for fam, Y, X, off in cases:
        ctx.evaluations += 1
        ctx.count('numba_mi-codes-beyond-2^24')
        dy, dx = {}, {}
        Yd, Xd = [dy.setdefault(v, len(dy)) for v in Y], [dx.setdefault(v, len(dx)) for v in X]
        if Yd == Xd and Y != X:
            Xd = [v + len(dy) for v in Xd]
        side = ctx.rng.choice(['feature', 'target', 'both'])
        Yh = [v + off for v in Y] if side in ('feature', 'both') else Y
        Xh = [v + off + 7 for v in X] if side in ('target', 'both') else X
        if Y == X:                                   # a self pair stays a self pair: the same shift on both sides
            Yh = Xh = [v + off for v in Y]
        elif Yh == Xh:
            Xh = [v + 1 for v in Xh]
        for name in NAMES:
            want = float(ie.numba_mi(np.asarray(Yd, dtype=np.int32).reshape(-1, 1), np.asarray(Xd, dtype=np.int32), name, 1.0))
            got = float(ie.numba_mi(np.asarray(Yh, dtype=np.int64).reshape(-1, 1), np.asarray(Xh, dtype=np.int64), name, 1.0))
            if abs(got - want) > 2 * tol(len(X)):
                ctx.oracle_fail('hugecodes:' + name, f'family={fam} n={len(X)}: numba_mi(heuristic={name!r}) on int64 vectors whose codes lie beyond 2^24 '
                                f'({side} side shifted by {off}; Y={Yh[:6]}… X={Xh[:6]}…) = {got!r}, the same pair under dense codes scores {want!r}',
                                {'hugecodes': [fam, Y, X, off]})
                break


def gen_hugecodes(rng):
    fam, Y, X = gen_pair(rng, False, maxn=300)
    Y, X = [y % 50 for y in Y], [x % 50 for x in X]
    return fam, Y, X, rng.choice([2 ** 24, 2 ** 24 + 12345, 20_000_000, 2 ** 25])


def corpus():
    return [('corpus', [0, 1, 0, 2], [1, 1, 0, 0]), ('corpus', [0, 1], [1, 0]), ('corpus', [4, 4, 4, 4], [0, 1, 0, 1]),
            ('corpus', [0, 1, 2, 3, 4, 5], [0, 0, 1, 1, 2, 2]), ('corpus', [2, 0, 2], [2, 0, 2])]


PIPE_CORPUS = [{'cols': [['label', [0, 0, 0, 1]], ['f', [0, 0, 1, 0]]], 'label': 'label', 'target_only': False},
               {'cols': [['f', [0, 0, 1, 0]], ['label', [0, 0, 0, 1]]], 'label': 'label', 'target_only': True}]


def run(ctx: Ctx):
    n = 5000 if ctx.thorough() else 700
    evaluate(ctx, corpus() + [gen_pair(ctx.rng, ctx.thorough(), maxn=3000) for _ in range(n)] + [gen_bijection(ctx.rng) for _ in range(n // 7)])
    evaluate_hugecodes(ctx, [gen_hugecodes(ctx.rng) for _ in range(20 if ctx.thorough() else 4)])
    evaluate_pipeline(ctx, PIPE_CORPUS + [gen_pipeline_case(ctx.rng) for _ in range(1500 if ctx.thorough() else 150)])
    seeds = range(ctx.seed * 100000, ctx.seed * 100000 + (400 if ctx.thorough() else 12))
    for nn in ((4000, 16000) if ctx.thorough() else (4000,)):
        wc, wu = planted(ctx, seeds, nn)
        ctx.extra[f'measured_planted_margin_n{nn}'] = {'seeds': len(list(seeds)), 'min_margin_corrected': wc, 'min_margin_uncorrected': wu}


def search(ctx: Ctx):
    sub = Ctx(ctx.prop, ctx.tier)
    sub.rng.seed(f'search:{ctx.seed}')
    evaluate(sub, [gen_pair(sub.rng, False, maxn=400) for _ in range(3000)] + [gen_bijection(sub.rng) for _ in range(500)], oracle_only=True)
    evaluate_pipeline(sub, [gen_pipeline_case(sub.rng) for _ in range(800)], oracle_only=True)
    return sub.oracle_failures


def replay(ctx: Ctx, payload):
    c = payload['case']
    if isinstance(c, dict) and 'hugecodes' in c:
        evaluate_hugecodes(ctx, [tuple(c['hugecodes'])])
    elif isinstance(c, dict) and 'cols' in c:
        evaluate_pipeline(ctx, [c])
    elif isinstance(c, dict) and 'Y' in c:
        evaluate(ctx, [(c.get('family', 'replay'), c['Y'], c['X'])])
    else:
        evaluate(ctx, [tuple(c)])
