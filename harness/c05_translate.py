"""C05 translator (T-tie): Python `ast` → `lean/OutrankModel/Gen/Dispatch.lean`.

Reads, in the tree under test,
  * `conduct_feature_ranking` – the if/elif chain on the heuristic name → `rules : List (Cond × Callee)`,
  * `numba_mi` – the name compared in `cardinality_correction = heuristic == …` → `correctionName`,
  * the project's documentation / examples / scripts / benchmarks / CLI help / self-test → `documentedNames`.
Every AST shape that is not one of the recognised ones is reported (`problems`), never guessed."""
from __future__ import annotations

import ast
import glob
import os
import re

SRC = 'outrank/algorithms/importance_estimator.py'
DOC_GLOBS = ['README.md', 'docs/DOCSMAIN.md', 'examples/*', 'scripts/*', 'benchmarks/*', 'outrank/__main__.py',
             'outrank/task_selftest.py', 'outrank/core_utils.py']
NAME_RE = r'[A-Za-z0-9][A-Za-z0-9_.+-]*'


def lean_str(s: str) -> str:
    out = []
    for ch in s:
        if ch == '\\':
            out.append('\\\\')
        elif ch == '"':
            out.append('\\"')
        elif 32 <= ord(ch) < 127:
            out.append(ch)
        else:
            out.append('\\u{%x}' % ord(ch))
    return '"' + ''.join(out) + '"'


def _str_const(n):
    return n.value if isinstance(n, ast.Constant) and isinstance(n.value, str) else None


def _is_zero(n):
    return isinstance(n, ast.Constant) and isinstance(n.value, (int, float)) and not isinstance(n.value, bool) and n.value == 0


def _func(tree, name):
    for n in tree.body:
        if isinstance(n, ast.FunctionDef) and n.name == name:
            return n
    return None


def _conds(test, hvar, problems):
    """test expression → list of Cond tuples (an `or` becomes consecutive rules with the same branch)"""
    if isinstance(test, ast.BoolOp) and isinstance(test.op, ast.Or):
        out = []
        for v in test.values:
            c = _conds(v, hvar, problems)
            if c is None:
                return None
            out += c
        return out
    if isinstance(test, ast.Compare) and len(test.ops) == 1 and len(test.comparators) == 1:
        left, op, right = test.left, test.ops[0], test.comparators[0]
        is_h = lambda n: isinstance(n, ast.Name) and n.id == hvar                       # noqa: E731
        if isinstance(op, ast.Eq) and is_h(left) and _str_const(right) is not None:
            return [('eq', right.value)]
        if isinstance(op, ast.Eq) and is_h(right) and _str_const(left) is not None:
            return [('eq', left.value)]
        if isinstance(op, ast.In) and is_h(left) and isinstance(right, (ast.Set, ast.List, ast.Tuple)):
            names = [_str_const(e) for e in right.elts]
            if all(x is not None for x in names):
                return [('inSet', sorted(names))]
        if isinstance(op, ast.In) and is_h(right) and _str_const(left) is not None:
            return [('contains', left.value)]
    problems.append(f'translator:unrecognised-test:{ast.unparse(test)[:80]}')
    return None


def _callee(expr, p0, p1, hvar, problems):
    """right-hand side of `score = …` → Callee name; the two vectors must be passed first, in their order"""
    def vec_args(call, extra=None):
        a = call.args
        ok = (len(a) >= 2 and isinstance(a[0], ast.Name) and a[0].id == p0 and isinstance(a[1], ast.Name) and a[1].id == p1
              and not call.keywords)
        if ok and extra is not None:
            ok = extra(a[2:])
        elif ok:
            ok = len(a) == 2
        return ok
    if _is_zero(expr):
        return 'const0'
    sub0 = (isinstance(expr, ast.Subscript) and isinstance(expr.slice, ast.Constant) and expr.slice.value == 0)
    call = expr.value if sub0 else expr
    if isinstance(call, ast.Call):
        f = call.func
        fname = f.id if isinstance(f, ast.Name) else (ast.unparse(f) if isinstance(f, ast.Attribute) else None)
        if fname == 'sklearn_MI' and not sub0 and vec_args(call):
            return 'sklearnMI'
        if fname == 'sklearn_mi_adj' and not sub0 and vec_args(call):
            return 'ami'
        if fname == 'ranking_cov_alignment.max_pair_coverage' and not sub0 and vec_args(call):
            return 'coverage'
        if fname == 'pearsonr' and sub0 and vec_args(call):
            return 'pearson'
        if fname == 'sklearn_surrogate' and not sub0 and vec_args(
                call, lambda r: len(r) == 1 and isinstance(r[0], ast.Name) and r[0].id == hvar):
            return 'surrogate'
        if fname == 'numba_mi' and not sub0 and vec_args(
                call, lambda r: len(r) == 2 and isinstance(r[0], ast.Name) and r[0].id == hvar
                and ast.unparse(r[1]) == 'args.mi_stratified_sampling_ratio'):
            return 'numbaMI'
    problems.append(f'translator:unrecognised-branch:{ast.unparse(expr)[:80]}')
    return None


def _branch_expr(body, problems, what):
    """a branch body: optional logger calls, then exactly one `score = <expr>`"""
    stmts = [s for s in body
             if not (isinstance(s, ast.Expr) and isinstance(s.value, ast.Call) and ast.unparse(s.value.func).startswith('logger.'))]
    if len(stmts) == 1 and isinstance(stmts[0], ast.Assign) and len(stmts[0].targets) == 1 \
            and isinstance(stmts[0].targets[0], ast.Name) and stmts[0].targets[0].id == 'score':
        return stmts[0].value
    problems.append(f'translator:unrecognised-body:{what}')
    return None


def dispatch_rules(tree, problems):
    fn = _func(tree, 'conduct_feature_ranking')
    if fn is None or len(fn.args.args) < 3:
        problems.append('translator:conduct_feature_ranking-not-found')
        return []
    p0, p1, pargs = (a.arg for a in fn.args.args[:3])
    body = [s for s in fn.body if not (isinstance(s, ast.Expr) and isinstance(s.value, ast.Constant))]
    # expected frame: heuristic = args.heuristic ; score = 0.0 ; if-chain ; return score
    hvar = None
    init_zero = False
    chain = None
    ret_ok = False
    for s in body:
        if isinstance(s, ast.Assign) and len(s.targets) == 1 and isinstance(s.targets[0], ast.Name):
            if ast.unparse(s.value) == f'{pargs}.heuristic' and chain is None:
                hvar = s.targets[0].id
                continue
            if s.targets[0].id == 'score' and _is_zero(s.value) and chain is None:
                init_zero = True
                continue
        if isinstance(s, ast.If) and chain is None:
            chain = s
            continue
        if isinstance(s, ast.Return) and isinstance(s.value, ast.Name) and s.value.id == 'score' and chain is not None:
            ret_ok = True
            continue
        problems.append(f'translator:unrecognised-statement:{ast.unparse(s)[:80]}')
    if hvar is None or chain is None or not ret_ok:
        problems.append('translator:conduct_feature_ranking-frame')
        return []
    rules = []
    node = chain
    while True:
        conds = _conds(node.test, hvar, problems)
        expr = _branch_expr(node.body, problems, ast.unparse(node.test)[:60])
        callee = _callee(expr, p0, p1, hvar, problems) if expr is not None else None
        if conds is not None and callee is not None:
            rules += [(c, callee) for c in conds]
        if len(node.orelse) == 1 and isinstance(node.orelse[0], ast.If):
            node = node.orelse[0]
            continue
        if node.orelse:
            e = _branch_expr(node.orelse, problems, 'else')
            if e is None or not _is_zero(e):
                problems.append('translator:else-branch-is-not-the-constant-0')
        elif not init_zero:
            problems.append('translator:no-else-and-no-initial-score')
        break
    return rules


def correction_name(tree, problems):
    fn = _func(tree, 'numba_mi')
    if fn is None or len(fn.args.args) < 4:
        problems.append('translator:numba_mi-not-found')
        return None
    p0, p1, ph = (a.arg for a in fn.args.args[:3])
    name = None
    for s in ast.walk(fn):
        if isinstance(s, ast.Assign) and len(s.targets) == 1 and isinstance(s.targets[0], ast.Name) \
                and s.targets[0].id == 'cardinality_correction':
            v = s.value
            if name is None and isinstance(v, ast.Compare) and len(v.ops) == 1 and isinstance(v.ops[0], ast.Eq) \
                    and isinstance(v.left, ast.Name) and v.left.id == ph and _str_const(v.comparators[0]) is not None:
                name = v.comparators[0].value
            else:
                problems.append(f'translator:unrecognised-correction-flag:{ast.unparse(v)[:80]}')
                return None
    if name is None:
        problems.append('translator:correction-flag-not-found')
        return None
    # the estimator call: (first.astype, second.astype, approximation_factor=…, cardinality_correction=cardinality_correction)
    rets = [s for s in ast.walk(fn) if isinstance(s, ast.Return)]
    ok = False
    if len(rets) == 1 and isinstance(rets[0].value, ast.Call):
        c = rets[0].value
        kw = {k.arg: k.value for k in c.keywords}
        base = lambda n: (n.func.value.id if isinstance(n, ast.Call) and isinstance(n.func, ast.Attribute)      # noqa: E731
                          and isinstance(n.func.value, ast.Name) and n.func.attr == 'astype' else None)
        ok = (ast.unparse(c.func).endswith('mutual_info_estimator_numba') and len(c.args) == 2
              and base(c.args[0]) == p0 and base(c.args[1]) == p1
              and isinstance(kw.get('cardinality_correction'), ast.Name) and kw['cardinality_correction'].id == 'cardinality_correction'
              and 'approximation_factor' in kw and 'mi_stratified_sampling_ratio' in ast.unparse(kw['approximation_factor']))
    if not ok:
        problems.append('translator:unrecognised-estimator-call-in-numba_mi')
    return name


def documented_names(repo, problems):
    """names a reader of the project's own material is told to pass as the heuristic"""
    files = []
    for g in DOC_GLOBS:
        files += sorted(glob.glob(os.path.join(repo, g)))
    files = [f for f in files if os.path.isfile(f) and not f.endswith(('.png', '.jpg', '.gz', '.pyc'))]
    found = {}
    trees = {}
    hparam_pos = {}                                    # function name → position of a parameter called `heuristic`
    for f in files:
        try:
            text = open(f, encoding='utf-8').read()
        except (UnicodeDecodeError, OSError):
            continue
        rel = os.path.relpath(f, repo)
        for m in re.finditer(r'--heuristic(?:\s+|=)["\']?(' + NAME_RE + ')', text):
            found.setdefault(m.group(1), rel)
        for m in re.finditer(r'(?i)\bheuristic\s*(?::\s*\w+\s*)?=\s*["\'](' + NAME_RE + r')["\']', text):
            found.setdefault(m.group(1), rel)
        if f.endswith('.py'):
            try:
                trees[rel] = ast.parse(text)
            except SyntaxError:
                problems.append(f'translator:cannot-parse:{rel}')
                continue
            for n in ast.walk(trees[rel]):
                if isinstance(n, ast.FunctionDef):
                    names = [a.arg for a in n.args.args]
                    if 'heuristic' in names:
                        hparam_pos[n.name] = names.index('heuristic')
    for rel, tree in trees.items():
        for n in ast.walk(tree):
            # positional use: conduct_self_test('max-value-coverage')
            if isinstance(n, ast.Call):
                fname = n.func.id if isinstance(n.func, ast.Name) else (n.func.attr if isinstance(n.func, ast.Attribute) else None)
                if fname in hparam_pos and len(n.args) > hparam_pos[fname]:
                    s = _str_const(n.args[hparam_pos[fname]])
                    if s is not None and re.fullmatch(NAME_RE, s):
                        found.setdefault(s, rel)
            # the CLI help / pro tips: 'Heuristic <name> …', and the argparse entry of --heuristic (default + names in help)
            if isinstance(n, ast.Constant) and isinstance(n.value, str):
                m = re.match(r'Heuristic (' + NAME_RE + r')\s', n.value)
                if m:
                    found.setdefault(m.group(1), rel)
            if isinstance(n, ast.Call) and isinstance(n.func, ast.Attribute) and n.func.attr == 'add_argument' \
                    and n.args and _str_const(n.args[0]) == '--heuristic':
                for k in n.keywords:
                    if k.arg == 'default' and _str_const(k.value):
                        found.setdefault(k.value.value, rel)
                    if k.arg == 'help' and _str_const(k.value):
                        for m in re.finditer(r'[`\'"](' + NAME_RE + r')[`\'"]', k.value.value):
                            found.setdefault(m.group(1), rel)
                    if k.arg == 'choices' and isinstance(k.value, (ast.List, ast.Tuple, ast.Set)):
                        for e in k.value.elts:
                            if _str_const(e):
                                found.setdefault(e.value, rel)
    return dict(sorted(found.items()))


def render(rules, corr, documented):
    def cond(c):
        if c[0] == 'inSet':
            return '.inSet [' + ', '.join(lean_str(s) for s in c[1]) + ']'
        return f'.{c[0]} {lean_str(c[1])}'
    lines = [
        '/- GENERATED by harness/c05_translate.py from outrank/algorithms/importance_estimator.py and the project\'s',
        '   documentation / examples / scripts – regenerated by every `./check C05 …`; do not edit. -/',
        'import OutrankModel.Model.C05',
        'namespace C05.Gen',
        'open C05',
        '',
        '/-- the if/elif chain of `conduct_feature_ranking`, in source order (first match wins) -/',
        'def rules : List (Cond × Callee) := [',
    ]
    lines += [f'  ({cond(c)}, .{k})' + (',' if i + 1 < len(rules) else '') for i, (c, k) in enumerate(rules)]
    lines += [
        ']',
        '',
        '/-- `numba_mi`: `cardinality_correction = heuristic == correctionName` -/',
        f'def correctionName : String := {lean_str(corr if corr is not None else "")}',
        '',
        '/-- heuristic names used in README / docs / examples / scripts / benchmarks / CLI help / self-test -/',
        'def documentedNames : List String := [',
    ]
    doc = list(documented)
    lines += [f'  {lean_str(n)}' + (',' if i + 1 < len(doc) else '') + f'   -- {documented[n]}' for i, n in enumerate(doc)]
    lines += [']', '', 'end C05.Gen', '']
    return '\n'.join(lines)


def translate_repo(repo, out_path):
    """returns (problems, info); (re)writes `out_path` only when the content changes"""
    problems = []
    try:
        tree = ast.parse(open(os.path.join(repo, SRC), encoding='utf-8').read())
    except (OSError, SyntaxError) as e:
        problems.append(f'translator:cannot-read-source:{type(e).__name__}')
        tree = ast.Module(body=[], type_ignores=[])
    rules = dispatch_rules(tree, problems)
    corr = correction_name(tree, problems)
    documented = documented_names(repo, problems)
    text = render(rules, corr, documented)
    old = None
    if os.path.exists(out_path):
        old = open(out_path, encoding='utf-8').read()
    if old != text:
        os.makedirs(os.path.dirname(out_path), exist_ok=True)
        with open(out_path, 'w', encoding='utf-8') as fh:
            fh.write(text)
    return problems, {'rules': rules, 'correctionName': corr, 'documented': documented}
