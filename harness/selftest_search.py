#!/venv/bin/python
"""selftest_search.py [Cxx …] – exercises the rarely taken paths of every check on the UNCHANGED tree: the extended failing-input
search (`mod.search`), and the replay of a generated case.  Both must run without raising and find nothing."""
import importlib
import os
import sys
import traceback

HERE = os.path.dirname(os.path.abspath(__file__))
sys.path.insert(0, HERE)
os.environ.setdefault('NUMBA_CACHE_DIR', os.path.join(os.path.dirname(HERE), '.cache', 'numba'))
os.environ.setdefault('PYTHONHASHSEED', '0')
REPO = os.environ.get('OUTRANK_REPO', '/repo')
sys.path.insert(1, REPO)
os.environ['PYTHONPATH'] = REPO + os.pathsep + os.environ.get('PYTHONPATH', '')
os.chdir(os.path.dirname(HERE))
import vp_common as vc  # noqa: E402

props = sys.argv[1:] or ['C%02d' % i for i in range(1, 21)]
bad = 0
for p in props:
    mod = importlib.import_module(f'corr_{p}')
    ctx = vc.Ctx(p, 'quick')
    try:
        if hasattr(mod, 'translate'):
            mod.translate(ctx)
        found = mod.search(ctx) if hasattr(mod, 'search') else []
        print(f'{p}: search ok, {len(found or [])} failures' + (' !!' if found else ''), flush=True)
        if found:
            bad += 1
            for f in found[:2]:
                print('   ', f.key, f.desc[:200])
    except Exception:   # noqa: BLE001
        bad += 1
        print(f'{p}: search RAISED')
        traceback.print_exc()
sys.exit(1 if bad else 0)
