"""Source tie (DESIGN §11.1): statement skeleton + expression translation of the anchored functions.

For every property `src_sites.ANCHORS[prop]` lists the anchored functions (file, qualified name) and, per function, the
*sites*: decision / arithmetic expressions that are translated into Lean definitions (`lean/OutrankModel/Gen/Src/<prop>.lean`)
and proved equal to what the hand-written model computes by the bridge theorems of `Props/Src/<prop>.lean`.

  python3 harness/src_translate.py --init [Cxx ...]   (development only) record skeletons + site paths from the current /repo
  translate(prop, repo) -> (broken: list[str], details: dict)      used by ./check on every run

A function is normalised (docstrings, logging / progress-bar statements, annotations dropped), every site is replaced by a
hole, and the `ast.dump` of the result must equal the committed skeleton; otherwise the translator refuses ("skeleton differs")
and the tie of the property is broken.  Site expressions are translated by `ToLean` (Int / Bool / Str / Rat / list-of-str
expressions; string methods with Python semantics = the `Py.*` functions of Model/PyInt.lean; expressions that can raise become
`Option`-valued definitions); anything outside the supported subset is a translator error (tie broken), never guessed."""
from __future__ import annotations

import ast
import difflib
import json
import os
import sys
from fractions import Fraction

HERE = os.path.dirname(os.path.abspath(__file__))
VERIF = os.path.dirname(HERE)
SKEL_DIR = os.path.join(HERE, 'src_skeletons')
GEN_DIR = os.path.join(VERIF, 'lean', 'OutrankModel', 'Gen', 'Src')

HARMLESS_ROOTS = {'logger', 'logging', 'pbar', 'local_pbar', 'print'}


class TranslateError(Exception):
    pass


# ------------------------------------------------------------------------------------------------ locating + normalising

def find_node(tree: ast.Module, qual: str):
    if qual == '<module>':
        body = [n for n in tree.body if not isinstance(n, (ast.Import, ast.ImportFrom, ast.FunctionDef, ast.AsyncFunctionDef, ast.ClassDef))
                and not (isinstance(n, ast.Expr) and isinstance(n.value, ast.Constant) and isinstance(n.value.value, str))
                and not (isinstance(n, ast.If) and ast.unparse(n.test).replace('"', "'") == "__name__ == '__main__'")]
        return ast.Module(body=body, type_ignores=[])
    node = tree
    for part in qual.split('.'):
        nxt = None
        for ch in ast.iter_child_nodes(node):
            if isinstance(ch, (ast.FunctionDef, ast.AsyncFunctionDef, ast.ClassDef)) and ch.name == part:
                nxt = ch
        if nxt is None:
            return None
        node = nxt
    return node


def _root_name(e):
    while isinstance(e, (ast.Attribute, ast.Call, ast.Subscript)):
        e = e.func if isinstance(e, ast.Call) else e.value
    return e.id if isinstance(e, ast.Name) else None


class Normalise(ast.NodeTransformer):
    """drop what cannot affect a property: docstrings, logging / progress statements, annotations"""

    def _body(self, body):
        out = []
        for i, st in enumerate(body):
            if isinstance(st, ast.Expr) and isinstance(st.value, ast.Constant) and isinstance(st.value.value, str):
                continue                                     # docstring / bare string
            if isinstance(st, ast.Expr) and isinstance(st.value, ast.Call) and _root_name(st.value) in HARMLESS_ROOTS:
                continue
            out.append(st)
        return out or [ast.Pass()]

    def generic_visit(self, node):
        super().generic_visit(node)
        for f in ('body', 'orelse', 'finalbody'):
            if hasattr(node, f) and isinstance(getattr(node, f), list) and getattr(node, f) and isinstance(getattr(node, f)[0], ast.stmt):
                setattr(node, f, self._body(getattr(node, f)))
        return node

    def visit_Call(self, node):
        self.generic_visit(node)
        # argparse help texts are documentation
        if isinstance(node.func, ast.Attribute) and node.func.attr == 'add_argument':
            node.keywords = [k for k in node.keywords if k.arg != 'help']
        return node

    def visit_FunctionDef(self, node):
        self.generic_visit(node)
        node.returns = None
        for a in node.args.args + node.args.kwonlyargs + node.args.posonlyargs + [x for x in (node.args.vararg, node.args.kwarg) if x]:
            a.annotation = None
        return node

    def visit_AnnAssign(self, node):
        self.generic_visit(node)
        if node.value is None:
            return ast.Pass()
        return ast.Assign(targets=[node.target], value=node.value)


SCOPES = (ast.FunctionDef, ast.AsyncFunctionDef, ast.Lambda, ast.ListComp, ast.SetComp, ast.DictComp, ast.GeneratorExp)
DYNAMIC_NAMESPACE = {'locals', 'vars', 'eval', 'exec', 'globals', 'dir'}


def local_renaming(fn):
    """Canonical names for the function's own local variables (harmless renames must not break the tie).

    Renamed: a name that is bound by a plain `Name` store in the function's OWN scope (assignment, augmented assignment,
    for / with target, del) and is not a parameter.  Every occurrence of such a name inside the function (nested scopes
    included: there it is either the closure variable or a shadowing local, and an injective renaming keeps both) is replaced by
    `_L<k>`, k = order of first occurrence.  Not renamed, so that equal canonical forms imply equivalent functions: parameters
    (keyword callers), names declared global / nonlocal, names bound anywhere by a construct that carries the name as a string
    (nested def / class, `except … as`, import, match capture, arguments of nested functions and lambdas), walrus targets,
    names bound only in nested scopes or comprehensions (outside they may denote a global), and everything when the function has
    a nested class or uses locals() / vars() / eval / exec / globals() / dir()."""
    if not isinstance(fn, (ast.FunctionDef, ast.AsyncFunctionDef)):
        return {}
    params = {a.arg for a in fn.args.args + fn.args.kwonlyargs + fn.args.posonlyargs} | \
             {x.arg for x in (fn.args.vararg, fn.args.kwarg) if x}
    excluded = set(params)
    for n in ast.walk(fn):
        if isinstance(n, ast.ClassDef):
            return {}
        if isinstance(n, ast.Name) and n.id in DYNAMIC_NAMESPACE:
            return {}
        if isinstance(n, (ast.Global, ast.Nonlocal)):
            excluded.update(n.names)
        elif isinstance(n, (ast.FunctionDef, ast.AsyncFunctionDef)) and n is not fn:
            excluded.add(n.name)
        elif isinstance(n, ast.ExceptHandler) and n.name:
            excluded.add(n.name)
        elif isinstance(n, ast.alias):
            excluded.add((n.asname or n.name).split('.')[0])
        elif isinstance(n, (ast.MatchAs, ast.MatchStar)) and n.name:
            excluded.add(n.name)
        elif isinstance(n, ast.MatchMapping) and n.rest:
            excluded.add(n.rest)
        elif isinstance(n, ast.NamedExpr) and isinstance(n.target, ast.Name):
            excluded.add(n.target.id)
        if isinstance(n, (ast.FunctionDef, ast.AsyncFunctionDef, ast.Lambda)) and n is not fn:
            a = n.args
            excluded.update(x.arg for x in a.args + a.kwonlyargs + a.posonlyargs)
            excluded.update(x.arg for x in (a.vararg, a.kwarg) if x)
    own = set()

    def scan(node):
        for ch in ast.iter_child_nodes(node):
            if isinstance(ch, SCOPES):
                # default values, decorators and the outermost iterable are evaluated in the enclosing scope but bind nothing there
                continue
            if isinstance(ch, ast.Name) and isinstance(ch.ctx, (ast.Store, ast.Del)):
                own.add(ch.id)
            scan(ch)
    scan(fn)
    ren = own - excluded
    order = {}
    for _, n in all_paths(fn):
        if isinstance(n, ast.Name) and n.id in ren and n.id not in order:
            order[n.id] = f'_L{len(order)}'
    return order


def apply_renaming(node, ren):
    if ren:
        for n in ast.walk(node):
            if isinstance(n, ast.Name) and n.id in ren:
                n.id = ren[n.id]
    return node


def rename_text(text, ren):
    """canonical spelling of a site parameter key (an unparsed sub-expression)"""
    if not ren:
        return text
    try:
        return ast.unparse(apply_renaming(ast.parse(text, mode='eval'), ren))
    except SyntaxError:
        return text


def normalised(node, rename=True):
    import copy
    n = Normalise().visit(copy.deepcopy(node))
    ast.fix_missing_locations(n)
    if rename:
        apply_renaming(n, local_renaming(n))
    return n


def all_paths(node, path=()):
    """yield (path, child) for every AST node below `node`; a path is a tuple of (field, index|None)"""
    for field, value in ast.iter_fields(node):
        if isinstance(value, ast.AST):
            p = path + ((field, None),)
            yield p, value
            yield from all_paths(value, p)
        elif isinstance(value, list):
            for i, v in enumerate(value):
                if isinstance(v, ast.AST):
                    p = path + ((field, i),)
                    yield p, v
                    yield from all_paths(v, p)


def follow(node, path):
    for field, idx in path:
        if not hasattr(node, field):
            return None
        node = getattr(node, field)
        if idx is not None:
            if not isinstance(node, list) or idx >= len(node):
                return None
            node = node[idx]
        if not isinstance(node, ast.AST):
            return None
    return node


def replace_at(node, path, new):
    parent = follow(node, path[:-1])
    field, idx = path[-1]
    if idx is None:
        setattr(parent, field, new)
    else:
        getattr(parent, field)[idx] = new


SKIP_FIELDS = {'type_params', 'type_comment', 'kind', 'ctx', 'lineno', 'col_offset', 'end_lineno', 'end_col_offset'}


def dump(node, ind=0):
    """version-independent rendering of an AST (empty / None fields and interpreter-version specific fields are omitted)"""
    pad = ' ' * ind
    if isinstance(node, ast.AST):
        parts = []
        for f, v in ast.iter_fields(node):
            if f in SKIP_FIELDS or v is None or v == []:
                continue
            parts.append(f'{pad} {f}=' + dump(v, ind + 1).lstrip())
        return pad + type(node).__name__ + ('(\n' + ',\n'.join(parts) + ')' if parts else '()')
    if isinstance(node, list):
        return pad + '[\n' + ',\n'.join(dump(x, ind + 1) for x in node) + ']'
    return pad + repr(node)


def skeleton_text(norm, site_paths: dict):
    import copy
    n = copy.deepcopy(norm)
    exprs = {}
    # all expressions are taken from the unmodified tree first (a site may lie inside another one, e.g. the condition of a
    # translated comprehension); then deeper paths are replaced first so that indices of shallower ones stay valid
    for name, path in site_paths.items():
        tgt = follow(n, tuple((f, i) for f, i in path))
        if tgt is None:
            raise TranslateError(f'site {name}: path not present')
        exprs[name] = copy.deepcopy(tgt)
    for name, path in sorted(site_paths.items(), key=lambda kv: -len(kv[1])):
        path = tuple((f, i) for f, i in path)
        if follow(n, path) is None:
            raise TranslateError(f'site {name}: path not present')
        replace_at(n, path, ast.Name(id=f'HOLE_{name}', ctx=ast.Load()))
    return dump(n), exprs


# ------------------------------------------------------------------------------------------------ expression -> Lean

def unp(e):
    return ast.unparse(e)


LEAN_KEYWORDS = {'fun', 'let', 'if', 'then', 'else', 'do', 'at', 'by', 'in', 'end', 'from', 'have', 'show', 'match', 'with', 'open',
                 'def', 'theorem', 'example', 'where', 'deriving', 'instance', 'structure', 'class', 'namespace', 'section', 'import',
                 'return', 'for', 'unless', 'try', 'catch', 'finally', 'mut', 'break', 'continue', 'true', 'false', 'some', 'none',
                 'Type', 'Prop', 'Sort', 'forall', 'exists', 'private', 'protected', 'partial', 'unsafe', 'macro', 'syntax', 'nomatch',
                 'nofun', 'then', 'using', 'calc', 'suffices', 'obtain', 'variable', 'universe', 'abbrev', 'inductive', 'mutual', 'set_option'}


def names_in(text):
    try:
        return {n.id for n in ast.walk(ast.parse(text, mode='eval')) if isinstance(n, ast.Name)}
    except SyntaxError:
        return set()


class ToLean:
    """Python int / bool / str / list-of-str expression -> Lean term. `params`: unparsed sub-expression -> (lean name, type).

    Types: 'Int', 'Bool', 'Str' (`String`), 'Rat', 'StrList' (`List String`), 'StrIter' (a generator expression over strings:
    accepted only where Python accepts any iterable – `sep.join(…)`, `list(…)`).
    Partial operations (`xs[k]` – IndexError; `s.split(sep)` with a non-literal `sep` – ValueError for '') are never totalised:
    each one becomes a binding `(<option>).bind fun v =>` in front of the body (`self.binds`) and the definition gets the type
    `Option T`, `none` standing for the exception.  Because `none` does not say WHICH exception or in which order, a partial
    operation is refused where Python might not evaluate it (right operands of and / or, chained comparisons, branches of a
    conditional expression, the per-element parts of a comprehension)."""

    def __init__(self, params):
        self.params = params
        self.used = []
        self.binds = []          # [(lean variable, lean term of type Option _)]
        self.guarded = 0         # > 0: inside a sub-expression that Python evaluates conditionally / repeatedly
        self.bound = []          # comprehension variables in scope (lean names)

    def fresh(self, base='v'):
        taken = {n for n, _ in self.params.values()} | set(self.bound) | {v for v, _ in self.binds}
        k = 1
        while f'{base}{k}' in taken:
            k += 1
        return f'{base}{k}'

    def bind(self, opt, e):
        if self.guarded:
            raise TranslateError(f'partial operation in a conditionally evaluated position: {unp(e)}')
        v = self.fresh()
        self.binds.append((v, opt))
        return v

    def guard(self, f, *a):
        self.guarded += 1
        try:
            return f(*a)
        finally:
            self.guarded -= 1

    def truthy(self, e):
        """Python truth value of an expression: bool as is, str -> non-empty, int -> non-zero, list -> non-empty"""
        a, ta = self.tr(e)
        if ta == 'Bool':
            return a
        if ta == 'Str':
            return f'(decide ({a} ≠ ""))'
        if ta == 'Int':
            return f'(decide ({a} ≠ (0 : Int)))'
        if ta == 'StrList':
            return f'(!(List.isEmpty {a}))'
        raise TranslateError(f'truth value of a {ta}: {unp(e)}')

    @staticmethod
    def lit_str(e):
        return e.value if isinstance(e, ast.Constant) and isinstance(e.value, str) else None

    @staticmethod
    def lit_nat(e):
        if isinstance(e, ast.Constant) and isinstance(e.value, int) and not isinstance(e.value, bool) and e.value >= 0:
            return e.value
        return None

    def str_method(self, e):
        """`recv.method(args)` on a str receiver (None when `e` is not such a call; TranslateError when it is one outside the subset)"""
        f = e.func
        m = f.attr
        if m not in ('strip', 'lstrip', 'rstrip', 'split', 'join', 'replace'):
            return None
        if e.keywords:
            raise TranslateError(f'keyword arguments in {unp(e)}')
        a, ta = self.tr(f.value)
        if ta != 'Str':
            raise TranslateError(f'.{m}() on a {ta}: {unp(e)}')
        if m in ('strip', 'lstrip', 'rstrip'):
            if not e.args:
                return f'(Py.{m} {a})', 'Str'                      # whitespace: Py.isSpace = Py_UNICODE_ISSPACE
            chars = self.lit_str(e.args[0]) if len(e.args) == 1 else None
            if chars is None:
                raise TranslateError(f'.{m}() needs no argument or one literal set of characters: {unp(e)}')
            return f'(Py.{m}Chars {a} {lean_str(chars)})', 'Str'
        if m == 'split':
            if len(e.args) != 1:
                raise TranslateError(f'.split() without separator / with maxsplit: {unp(e)}')
            lit = self.lit_str(e.args[0])
            if lit is not None:
                if lit == '':
                    raise TranslateError(f'empty separator: {unp(e)}')
                return f'(Py.split {a} {lean_str(lit)})', 'StrList'
            b, tb = self.tr(e.args[0])
            if tb != 'Str':
                raise TranslateError(f'separator of type {tb}: {unp(e)}')
            return self.bind(f'(Py.split? {a} {b})', e), 'StrList'   # ValueError for sep == '' = none
        if m == 'join':
            if len(e.args) != 1:
                raise TranslateError(f'call {unp(e)}')
            b, tb = self.tr(e.args[0])
            if tb not in ('StrList', 'StrIter'):
                raise TranslateError(f'.join() of a {tb}: {unp(e)}')
            return f'(Py.join {a} {b})', 'Str'
        if m == 'replace':
            old = self.lit_str(e.args[0]) if len(e.args) == 2 else None
            if not old:
                raise TranslateError(f'.replace() needs a literal non-empty first argument and no count: {unp(e)}')
            b, tb = self.tr(e.args[1])
            if tb != 'Str':
                raise TranslateError(f'.replace() by a {tb}: {unp(e)}')
            return f'(Py.replace {a} {lean_str(old)} {b})', 'Str'
        return None

    def comprehension(self, e):
        """`[x for x in xs if c]` / `(x for x in xs if c)` over a list of strings -> List.filter"""
        if len(e.generators) != 1:
            raise TranslateError(f'nested comprehension {unp(e)}')
        g = e.generators[0]
        if g.is_async or not isinstance(g.target, ast.Name):
            raise TranslateError(f'comprehension target in {unp(e)}')
        v = g.target.id
        if not (isinstance(e.elt, ast.Name) and e.elt.id == v):
            raise TranslateError(f'comprehension element is not the loop variable: {unp(e)}')
        it, tit = self.tr(g.iter)                                     # evaluated once, outside the loop
        if tit != 'StrList':
            raise TranslateError(f'comprehension over a {tit}: {unp(e)}')
        taken = {n for n, _ in self.params.values()} | set(self.bound) | {b for b, _ in self.binds}
        lv = v if (v.isascii() and v.isidentifier() and v not in LEAN_KEYWORDS and v not in taken and not v.startswith('_')) else self.fresh('x')
        saved = self.params
        # the loop variable shadows every parameter that mentions it
        self.params = {k: val for k, val in saved.items() if v not in names_in(k)}
        self.params[v] = (lv, 'Str')
        self.bound.append(lv)
        try:
            conds = [self.guard(self.truthy, c) for c in g.ifs]
        finally:
            self.params = saved
            self.bound.pop()
        ty = 'StrList' if isinstance(e, ast.ListComp) else 'StrIter'
        if not conds:
            return it, ty
        return f'(List.filter (fun {lv} => {" && ".join(conds)}) {it})', ty

    def tr(self, e):
        """returns (lean text, type in {'Int','Bool','Str','Rat','StrList','StrIter'})"""
        key = unp(e)
        if key in self.params:
            name, ty = self.params[key]
            if name not in self.used and name not in self.bound:
                self.used.append(name)
            return name, ty
        if isinstance(e, ast.Constant):
            v = e.value
            if isinstance(v, bool):
                return ('true' if v else 'false'), 'Bool'
            if isinstance(v, int):
                return f'({v} : Int)', 'Int'
            if isinstance(v, str):
                return lean_str(v), 'Str'
            if isinstance(v, float):
                fr = Fraction(repr(v))
                if fr.denominator == 1:
                    return f'({fr.numerator} : Rat)', 'Rat'
                return f'(({fr.numerator} : Rat) / {fr.denominator})', 'Rat'
            raise TranslateError(f'constant {v!r}')
        if isinstance(e, ast.UnaryOp):
            a, ta = self.tr(e.operand)
            if isinstance(e.op, ast.USub) and ta in ('Int', 'Rat'):
                return f'(-{a})', ta
            if isinstance(e.op, ast.Not):
                return f'(!{self.truthy(e.operand)})', 'Bool'
            raise TranslateError(f'unary {unp(e)}')
        if isinstance(e, ast.BinOp):
            if isinstance(e.op, ast.Div):
                raise TranslateError(f'true division outside int(a / b): {unp(e)}')
            a, ta = self.tr(e.left)
            b, tb = self.tr(e.right)
            if ta != 'Int' or tb != 'Int':
                if ta == tb == 'Str' and isinstance(e.op, ast.Add):
                    return f'({a} ++ {b})', 'Str'
                if {ta, tb} <= {'Int', 'Rat'} and type(e.op) in (ast.Add, ast.Sub, ast.Mult):
                    # exact rational arithmetic stands for the float computation; whether the float result agrees is the
                    # site's documented precondition (products of a small count with a decimal literal, truncated by int())
                    ca = f'(({a} : Int) : Rat)' if ta == 'Int' else a
                    cb = f'(({b} : Int) : Rat)' if tb == 'Int' else b
                    sym = {ast.Add: '+', ast.Sub: '-', ast.Mult: '*'}[type(e.op)]
                    return f'({ca} {sym} {cb})', 'Rat'
                raise TranslateError(f'non-integer arithmetic {unp(e)}')
            op = type(e.op)
            if op in (ast.Add, ast.Sub, ast.Mult):
                return f'({a} {"+" if op is ast.Add else "-" if op is ast.Sub else "*"} {b})', 'Int'
            if op is ast.FloorDiv:
                return f'(Py.floordiv {a} {b})', 'Int'
            if op is ast.Mod:
                return f'(Py.mod {a} {b})', 'Int'
            if op is ast.Pow:
                return f'(Py.pow {a} {b})', 'Int'
            if op is ast.LShift:
                return f'(Py.shl {a} {b})', 'Int'
            if op is ast.RShift:
                return f'(Py.shr {a} {b})', 'Int'
            if op is ast.BitAnd:
                return f'(Py.band {a} {b})', 'Int'
            if op is ast.BitOr:
                return f'(Py.bor {a} {b})', 'Int'
            if op is ast.BitXor:
                return f'(Py.bxor {a} {b})', 'Int'
            raise TranslateError(f'operator in {unp(e)}')
        if isinstance(e, ast.BoolOp):
            # only the truth value of an and/or is translated (sites are conditions), not Python's operand-returning semantics
            parts = [self.truthy(e.values[0])] + [self.guard(self.truthy, v) for v in e.values[1:]]
            j = ' && ' if isinstance(e.op, ast.And) else ' || '
            return '(' + j.join(parts) + ')', 'Bool'
        if isinstance(e, ast.Compare):
            terms = [e.left] + list(e.comparators)
            outs = []
            for i, (l, op, r) in enumerate(zip(terms, e.ops, terms[1:])):
                outs.append(self.cmp(l, op, r) if i == 0 else self.guard(self.cmp, l, op, r))
            return ('(' + ' && '.join(outs) + ')' if len(outs) > 1 else outs[0]), 'Bool'
        if isinstance(e, ast.IfExp):
            c = self.truthy(e.test)
            a, ta = self.guard(self.tr, e.body)
            b, tb = self.guard(self.tr, e.orelse)
            if ta != tb:
                raise TranslateError(f'conditional {unp(e)}')
            return f'(if {c} then {a} else {b})', ta
        if isinstance(e, ast.JoinedStr):
            parts = []
            for v in e.values:
                if isinstance(v, ast.Constant) and isinstance(v.value, str):
                    parts.append(lean_str(v.value))
                elif isinstance(v, ast.FormattedValue) and v.conversion == -1 and v.format_spec is None:
                    a, ta = self.tr(v.value)
                    if ta == 'Str':
                        parts.append(a)
                    elif ta == 'Int':
                        parts.append(f'(Py.strOfInt {a})')
                    else:
                        raise TranslateError(f'f-string field of type {ta}: {unp(e)}')
                else:
                    raise TranslateError(f'f-string with conversion / format spec: {unp(e)}')
            return '(' + ' ++ '.join(parts or ['""']) + ')', 'Str'
        if isinstance(e, ast.Call):
            if isinstance(e.func, ast.Name) and not e.keywords:
                f = e.func.id
                if f in ('max', 'min') and len(e.args) == 2:
                    a, ta = self.tr(e.args[0])
                    b, tb = self.tr(e.args[1])
                    if ta == tb == 'Int':
                        return f'({f} {a} {b})', 'Int'
                if f == 'abs' and len(e.args) == 1:
                    a, ta = self.tr(e.args[0])
                    if ta == 'Int':
                        return f'((Int.natAbs {a} : Nat) : Int)', 'Int'
                if f == 'int' and len(e.args) == 1:
                    x = e.args[0]
                    if isinstance(x, ast.BinOp) and isinstance(x.op, ast.Div):
                        a, ta = self.tr(x.left)
                        b, tb = self.tr(x.right)
                        if ta == tb == 'Int':
                            return f'(Py.truncdiv {a} {b})', 'Int'
                    a, ta = self.tr(x)
                    if ta == 'Int':
                        return a, 'Int'
                    if ta == 'Rat':
                        return f'(Py.truncRat {a})', 'Int'
                if f == 'len' and len(e.args) == 1:
                    a, ta = self.tr(e.args[0])
                    if ta == 'Str':
                        return f'(({a}.length : Nat) : Int)', 'Int'
                    if ta == 'StrList':
                        return f'((List.length {a} : Nat) : Int)', 'Int'
                if f == 'list' and len(e.args) == 1:
                    a, ta = self.tr(e.args[0])
                    if ta in ('StrList', 'StrIter'):
                        return a, 'StrList'
            if isinstance(e.func, ast.Attribute) and not e.args and not e.keywords and e.func.attr == 'bit_length':
                a, ta = self.tr(e.func.value)
                if ta == 'Int':
                    return f'(Py.bitLength {a})', 'Int'
            if isinstance(e.func, ast.Attribute) and e.func.attr == 'startswith' and len(e.args) == 1 and not e.keywords:
                a, ta = self.tr(e.func.value)
                b, tb = self.tr(e.args[0])
                if ta == tb == 'Str':
                    return f'(Py.startsWith {a} {b})', 'Bool'
            if isinstance(e.func, ast.Attribute):
                r = self.str_method(e)
                if r is not None:
                    return r
            raise TranslateError(f'call {unp(e)}')
        if isinstance(e, ast.Subscript):
            a, ta = self.tr(e.value)
            sl = e.slice
            if isinstance(sl, ast.Slice):
                k = 0 if sl.lower is None else self.lit_nat(sl.lower)
                if k is None or sl.upper is not None or sl.step is not None:
                    raise TranslateError(f'slice other than [k:] with a literal k >= 0: {unp(e)}')
                if ta == 'Str':
                    return f'(Py.dropStr {a} {k})', 'Str'
                if ta == 'StrList':
                    return f'(List.drop {k} {a})', 'StrList'
                raise TranslateError(f'slice of a {ta}: {unp(e)}')
            k = self.lit_nat(sl)
            if k is None:
                raise TranslateError(f'index other than a literal k >= 0: {unp(e)}')
            if ta == 'StrList':
                return self.bind(f'({a}[{k}]?)', e), 'Str'           # IndexError = none
            raise TranslateError(f'indexing a {ta}: {unp(e)}')
        if isinstance(e, (ast.ListComp, ast.GeneratorExp)):
            return self.comprehension(e)
        if isinstance(e, ast.List):
            items = [self.tr(x) for x in e.elts]
            if all(t == 'Str' for _, t in items):
                return '[' + ', '.join(x for x, _ in items) + ']', 'StrList'
            raise TranslateError(f'list display with non-str elements: {unp(e)}')
        raise TranslateError(f'unsupported expression {unp(e)}')

    def cmp(self, l, op, r):
        if isinstance(op, (ast.In, ast.NotIn)):
            a, ta = self.tr(l)
            neg = '!' if isinstance(op, ast.NotIn) else ''
            if isinstance(r, (ast.Tuple, ast.List, ast.Set)):
                items = [self.tr(x) for x in r.elts]
                if all(t == ta for _, t in items):
                    return f'({neg}(List.elem {a} [{", ".join(x for x, _ in items)}]))'
                raise TranslateError(f'membership {unp(l)} in {unp(r)}')
            b, tb = self.tr(r)
            if ta == tb == 'Str':
                return f'({neg}(Py.contains {b} {a}))'          # substring test: needle `a` in haystack `b`
            if ta == 'Str' and tb == 'StrList':
                return f'({neg}(List.elem {a} {b}))'
            raise TranslateError(f'membership {unp(l)} in {unp(r)}')
        a, ta = self.tr(l)
        b, tb = self.tr(r)
        if ta != tb:
            if {ta, tb} == {'Int', 'Rat'}:
                a = f'(({a} : Int) : Rat)' if ta == 'Int' else a
                b = f'(({b} : Int) : Rat)' if tb == 'Int' else b
                ta = tb = 'Rat'
            else:
                raise TranslateError(f'comparison of {ta} with {tb}: {unp(l)} vs {unp(r)}')
        sym = {ast.Lt: '<', ast.LtE: '≤', ast.Gt: '>', ast.GtE: '≥', ast.Eq: '=', ast.NotEq: '≠'}.get(type(op))
        if ta == 'StrIter':
            raise TranslateError(f'comparison of generator objects: {unp(l)} ? {unp(r)}')
        if sym is None or (ta in ('Bool', 'Str', 'StrList') and sym not in ('=', '≠')):
            raise TranslateError(f'comparison operator in {unp(l)} ? {unp(r)}')
        return f'(decide ({a} {sym} {b}))'


def lean_str(s: str) -> str:
    out = []
    for ch in s:
        o = ord(ch)
        if ch == '"':
            out.append('\\"')
        elif ch == '\\':
            out.append('\\\\')
        elif ch == '\n':
            out.append('\\n')
        elif ch == '\t':
            out.append('\\t')
        elif ch == '\r':
            out.append('\\r')
        elif o < 32 or o == 127:
            out.append('\\x%02x' % o)
        else:
            out.append(ch)
    return '"' + ''.join(out) + '"'


LEAN_TY = {'Int': 'Int', 'Bool': 'Bool', 'Str': 'String', 'Rat': 'Rat', 'StrList': 'List String'}


def site_def(name, expr, spec):
    params = {k: (v if isinstance(v, (list, tuple)) else (v, 'Int')) for k, v in spec.get('params', {}).items()}
    params = {k: (v[0], v[1]) for k, v in params.items()}
    t = ToLean(params)
    body, ty = t.tr(expr)
    if spec.get('type') == 'Bool' and ty in ('Str', 'Int'):
        body, ty = t.truthy(expr), 'Bool'
    if spec.get('type') and spec['type'] != ty:
        raise TranslateError(f'site {name}: expression has type {ty}, declared {spec["type"]}')
    if ty not in LEAN_TY:
        raise TranslateError(f'site {name}: a {ty} is not a value the tie can state ({unp(expr)})')
    lty = LEAN_TY[ty]
    if t.binds:
        # partial operations: `none` = the exception Python raises (IndexError / ValueError); never totalised
        body = ''.join(f'{o}.bind fun {v} =>\n  ' for v, o in t.binds) + f'some {body}'
        lty = f'Option ({lty})' if ' ' in lty else f'Option {lty}'
    # parameter list in the declared order (stable signature even if a rewrite stops using one)
    plist = []
    for k, (pn, pt) in params.items():
        if pn not in [x for x, _ in plist]:
            plist.append((pn, pt))
    sig = ' '.join(f'({pn} : {LEAN_TY[pt]})' for pn, pt in plist)
    doc = unp(expr).replace('-/', '- /')
    return f'/-- `{doc}` -/\ndef {name}{" " + sig if sig else ""} : {lty} :=\n  {body}\n'


# ------------------------------------------------------------------------------------------------ per property

def anchor_id(a):
    return (os.path.basename(a['file'])[:-3] + '__' + a['qual']).replace('<module>', 'MODULE').replace('.', '_')


def load_skel(prop, a):
    p = os.path.join(SKEL_DIR, prop, anchor_id(a) + '.json')
    if not os.path.exists(p):
        return None
    return json.load(open(p, encoding='utf-8'))


def parse_file(repo, rel):
    with open(os.path.join(repo, rel), encoding='utf-8') as fh:
        return ast.parse(fh.read())


def translate(prop: str, repo: str, write=True):
    """returns (broken, details). broken = list of short strings (empty when the tie holds)."""
    import src_sites
    anchors = src_sites.ANCHORS.get(prop, [])
    broken, details = [], {'anchors': len(anchors), 'sites': 0, 'skeleton_ok': 0, 'translated': 0, 'problems': []}
    defs = []
    trees = {}
    for a in anchors:
        aid = anchor_id(a)
        sk = load_skel(prop, a)
        if sk is None:
            raise RuntimeError(f'no committed skeleton for {prop}/{aid} (run src_translate.py --init)')
        details['sites'] += len(a.get('sites', []))
        try:
            if a['file'] not in trees:
                trees[a['file']] = parse_file(repo, a['file'])
            node = find_node(trees[a['file']], a['qual'])
            if node is None:
                raise TranslateError('function not found')
            norm = normalised(node)
            text, exprs = skeleton_text(norm, sk['sites'])
            if text != sk['skeleton']:
                diff = list(difflib.unified_diff(sk['skeleton'].splitlines(), text.splitlines(), 'translated-skeleton', 'current-source', n=2, lineterm=''))
                raise TranslateError('skeleton differs\n' + '\n'.join(diff[:60]))
            details['skeleton_ok'] += 1
        except (TranslateError, SyntaxError, OSError) as e:
            msg = str(e)
            broken.append(f'source:{a["file"]}:{a["qual"]}: {msg.splitlines()[0]}')
            details['problems'].append({'anchor': f'{a["file"]}:{a["qual"]}', 'problem': msg})
            # sites of a function whose skeleton changed are still translated when their paths exist (best effort, for the bridge)
            try:
                _, exprs = skeleton_text(norm, sk['sites'])
            except Exception:   # noqa: BLE001
                exprs = {}
        for s in a.get('sites', []):
            if s['name'] not in exprs:
                continue
            if s['name'] in sk.get('params', {}):      # keys spelled with the canonical local names (recorded by --init)
                s = dict(s, params={k: tuple(v) for k, v in sk['params'][s['name']]})
            try:
                defs.append(site_def(s['name'], exprs[s['name']], s))
                details['translated'] += 1
            except TranslateError as e:
                broken.append(f'source:{a["file"]}:{a["qual"]}: site {s["name"]} not translatable: {e}')
                details['problems'].append({'anchor': f'{a["file"]}:{a["qual"]}', 'site': s['name'], 'problem': str(e),
                                            'expression': unp(exprs[s['name']])})
    if write:
        os.makedirs(GEN_DIR, exist_ok=True)
        out = ('import OutrankModel.Model.PyInt\n'
               f'/-! GENERATED by harness/src_translate.py from the anchored functions of {prop} – do not edit.\n'
               '    Each definition is the mechanical translation of one expression of the source (quoted in its doc comment). -/\n'
               'set_option linter.unusedVariables false\n'
               f'namespace Gen.Src.{prop}\n\n' + '\n'.join(defs) + f'\nend Gen.Src.{prop}\n')
        path = os.path.join(GEN_DIR, f'{prop}.lean')
        old = open(path, encoding='utf-8').read() if os.path.exists(path) else None
        if old != out:
            open(path, 'w', encoding='utf-8').write(out)
    return broken, details


# ------------------------------------------------------------------------------------------------ development: --init

def locate_site(norm, spec):
    want = spec['find']
    hits = [(p, n) for p, n in all_paths(norm) if isinstance(n, ast.expr) and unp(n) == want]
    # keep outermost occurrences only
    hits = [(p, n) for p, n in hits if not any(p[:len(q)] == q and len(q) < len(p) for q, _ in hits)]
    k = spec.get('nth', 0)
    if len(hits) <= k or (len(hits) > 1 and 'nth' not in spec):
        raise SystemExit(f'site {spec["name"]}: {len(hits)} occurrences of {want!r} (set nth)')
    return [list(x) for x in hits[k][0]]


def init(props, repo='/repo'):
    import src_sites
    for prop in props or sorted(src_sites.ANCHORS):
        os.makedirs(os.path.join(SKEL_DIR, prop), exist_ok=True)
        for a in src_sites.ANCHORS[prop]:
            node = find_node(parse_file(repo, a['file']), a['qual'])
            if node is None:
                raise SystemExit(f'{prop}: {a["file"]}:{a["qual"]} not found')
            plain = normalised(node, rename=False)             # sites are located by their source spelling
            paths = {s['name']: locate_site(plain, s) for s in a.get('sites', [])}
            ren = local_renaming(plain)
            norm = normalised(node)
            text, _ = skeleton_text(norm, paths)
            cparams = {}
            for s in a.get('sites', []):
                items = []
                for k, v in s.get('params', {}).items():
                    v = tuple(v) if isinstance(v, (list, tuple)) else (v, 'Int')
                    items.append([rename_text(k, ren), list(v)])
                cparams[s['name']] = items
            json.dump({'file': a['file'], 'qual': a['qual'], 'sites': paths, 'params': cparams, 'renamed_locals': ren, 'skeleton': text},
                      open(os.path.join(SKEL_DIR, prop, anchor_id(a) + '.json'), 'w', encoding='utf-8'), indent=1)
        b, d = translate(prop, repo)
        print(prop, 'anchors', d['anchors'], 'sites', d['sites'], 'translated', d['translated'], 'broken', b)


if __name__ == '__main__':
    sys.path.insert(0, HERE)
    if len(sys.argv) > 1 and sys.argv[1] == '--init':
        init(sys.argv[2:])
    else:
        for p in sys.argv[1:]:
            print(p, translate(p, os.environ.get('OUTRANK_REPO', '/repo')))
