#!/usr/bin/env python3
"""integrate.py <workspace> <Cxx> [<Cxx> ...] – merge a builder workspace (/tmp/ws_*/verif) into /verif:
new files are copied, Driver.lean / OutrankModel.lean / checks.json / KNOWN_FINDINGS.txt are merged additively."""
import json, os, re, runpy, shutil, sys

V = '/verif'
ws = sys.argv[1].rstrip('/')
W = ws + '/verif'
props = sys.argv[2:]
SKIP_DIRS = {'.lake', '.git', '.cache', 'replays', '__pycache__', '.audit', 'evidence', 'seeded'}
SHARED = {'lean/Driver.lean', 'lean/OutrankModel.lean', 'harness/gen_manifest.py', 'harness/checks.json', 'KNOWN_FINDINGS.txt',
          'MANIFEST.json', 'harness/vp_common.py', 'check', 'BUILDING.md', 'DESIGN.md', 'properties.jsonl'}
changed_existing = []
for root, dirs, files in os.walk(W):
    dirs[:] = [d for d in dirs if d not in SKIP_DIRS]
    for f in files:
        src = os.path.join(root, f)
        rel = os.path.relpath(src, W)
        dst = os.path.join(V, rel)
        if rel in SHARED:
            continue
        if not os.path.exists(dst):
            os.makedirs(os.path.dirname(dst), exist_ok=True)
            shutil.copy2(src, dst)
            print('new  ', rel)
        elif open(src, 'rb').read() != open(dst, 'rb').read():
            changed_existing.append(rel)
# Driver.lean
def merge_lines(rel, is_wanted, place):
    mine = open(os.path.join(V, rel), encoding='utf-8').read().split('\n')
    theirs = open(os.path.join(W, rel), encoding='utf-8').read().split('\n')
    norm = lambda l: l.rstrip().rstrip(',')
    mine_n = {norm(l) for l in mine}
    add = [l for l in theirs if is_wanted(l) and norm(l) not in mine_n]
    if add:
        place(mine, add)
        open(os.path.join(V, rel), 'w', encoding='utf-8').write('\n'.join(mine))
        print('merged', rel, add)
def place_driver(mine, add):
    imps = [l for l in add if l.startswith('import ')]
    hs = [l for l in add if not l.startswith('import ')]
    li = max(i for i, l in enumerate(mine) if l.startswith('import '))
    mine[li + 1:li + 1] = imps
    close = next(i for i, l in enumerate(mine) if l.strip() == ']')
    if hs:
        if not mine[close - 1].rstrip().endswith(','):
            mine[close - 1] = mine[close - 1].rstrip() + ','
        hs = [h.rstrip().rstrip(',') + ',' for h in hs]
        hs[-1] = hs[-1].rstrip(',')
        mine[close:close] = hs
merge_lines('lean/Driver.lean', lambda l: l.startswith('import ') or re.match(r'\s*\("[A-Za-z0-9]+",\s*\S+\)', l), place_driver)
def place_root(mine, add):
    while mine and mine[-1] == '':
        mine.pop()
    mine += add + ['']
merge_lines('lean/OutrankModel.lean', lambda l: l.startswith('import '), place_root)
# checks
mine = json.load(open(V + '/harness/checks.json', encoding='utf-8'))
if os.path.exists(W + '/harness/checks.json'):
    theirs = json.load(open(W + '/harness/checks.json', encoding='utf-8'))
else:
    theirs = runpy.run_path(W + '/harness/gen_manifest.py', run_name='notmain')['CHECKS']
for p in props:
    if p in theirs:
        mine[p] = theirs[p]
        print('check entry', p)
    else:
        print('!! no manifest entry for', p)
json.dump(mine, open(V + '/harness/checks.json', 'w', encoding='utf-8'), indent=1, ensure_ascii=False)
# known findings
ml = open(V + '/KNOWN_FINDINGS.txt', encoding='utf-8').read().split('\n')
tl = open(W + '/KNOWN_FINDINGS.txt', encoding='utf-8').read().split('\n')
add = [l for l in tl if l.strip() and l not in ml and (l.startswith('fixed:') or l.startswith('finding:'))]
if add:
    while ml and ml[-1] == '':
        ml.pop()
    open(V + '/KNOWN_FINDINGS.txt', 'w', encoding='utf-8').write('\n'.join(ml + add) + '\n')
    print('known findings +', add)
print('existing files that differ (NOT copied; review):', changed_existing)
for rel in ('harness/vp_common.py', 'check'):
    if open(os.path.join(W, rel), 'rb').read() != open(os.path.join(V, rel), 'rb').read():
        print('NOTE shared file differs:', rel)
