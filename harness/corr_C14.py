"""C14 – cardinality sketch: exact while warm, within 2% beyond, duplicate-blind.
Tie: the real HyperLogLogWCache with instance attributes p/m/warmup_size/width overridden to small values (dense boundary
crossing) vs the Lean model, add by add (phase flag and size). The class constants themselves are checked (p=19, m=2^19,
W=2^18, width=45), and the real-size sketch is run against the property oracle directly.
Oracle: Lean `spec` (proved = len of the model for every hash) on every prefix; duplicate-blindness and order-independence
checked directly on the implementation.  The 2% clause is MEASURED (statistical)."""
from __future__ import annotations

import xxhash

from vp_common import Atom, Ctx, line, run_driver

PROP = 'C14'
RULE = ('insertion sequences (strings, hex digests, small ints, URL-like strings of 65..300 characters) with duplicates before/at/after the warm-up boundary, in random '
        'orders, on the real class with (p,W) in {(3,4),(4,8),(6,32),(4,3),(5,1)}; plus the real p=19 sketch up to 2^18+3000 distinct '
        '(thorough: 2^21). Non-trivial = sequence that crosses the boundary and contains a duplicate at or after it; distinct = '
        'distinct (p, W, digest sequence).')
ASSUMPTIONS = ['xxh32 is an external: every value\'s real digest is shipped to the model; values with colliding digests are skipped',
               'numpy log vs libm log under ceil: sizes in the sketch phase are compared with +-1',
               '"within 2% up to 2^21 distinct" is a property of xxh32\'s distribution (false for adversarial inputs): measured, not proved']
SMALL = [(3, 4), (4, 8), (6, 32), (4, 3), (5, 1)]


def digest(v, p):
    h = xxhash.xxh32(seed=p)
    h.update(v.encode('utf-8') if isinstance(v, str) else bytes(v))
    return h.intdigest()


def make_sketch(p, W):
    from outrank.algorithms.sketches.counting_ultiloglog import HyperLogLogWCache
    s = HyperLogLogWCache(0.005)
    s.p = p
    s.m = 1 << p
    s.warmup_size = W
    s.width = 64 - p
    return s


def gen_case(rng, thorough):
    p, W = rng.choice(SMALL)
    kind = rng.choice(['str', 'hex', 'int', 'long-str'])
    nd = rng.choice([1, W - 1, W, W, W + 1, W + 1, W + 2, 2 * W, 3 * W + 5, 6 * W])
    nd = max(1, nd)
    if kind == 'str':
        pool = [f'v{rng.randrange(10**6)}' for _ in range(nd)] + ['', 'é', ' x']
    elif kind == 'hex':
        pool = ['%08x' % rng.randrange(2 ** 32) for _ in range(nd)]
    elif kind == 'long-str':                 # URL-like / free-text values of 65..300 characters
        pool = ['https://example.org/' + rng.choice(['path/', 'é/', 'q?x=']) * rng.randint(9, 40) + str(rng.randrange(10 ** 9)) +
                rng.choice(['', '#frag', ' ' * 30]) for _ in range(nd)]
        pool = [v if len(v) > 64 else v + '/' * 65 for v in pool]
    else:
        pool = list(range(1, nd + 1))
    pool = list(dict.fromkeys(pool))[:nd]
    seq = pool[:]
    rng.shuffle(seq)
    if kind in ('str', 'long-str') and rng.random() < 0.25:      # the empty string as the very first value of a fresh sketch
        seq = [''] + [v for v in seq if v != '']
    # duplicates sprinkled in, with emphasis on the boundary position
    out = []
    seen = []
    for v in seq:
        out.append(v)
        seen.append(v)
        if len(seen) in (W - 1, W, W + 1) and rng.random() < 0.8:
            out.append(rng.choice(seen))
        elif rng.random() < 0.2:
            out.append(rng.choice(seen))
    return {'p': p, 'W': W, 'seq': out, 'twin': rng.random() < 0.3}


class ImplRaised(Exception):
    def __init__(self, i, exc):
        self.i, self.exc = i, exc


def run_impl(c, seq=None):
    s = make_sketch(c['p'], c['W'])
    other = make_sketch(c['p'], c['W']) if c.get('twin') else None
    tr = []
    for i, v in enumerate(seq if seq is not None else c['seq']):
        try:
            s.add(v)
            if other is not None:
                other.add('twin-' + str(v))      # a SECOND sketch of the same process fed other values: instances must be independent
            tr.append([bool(s.hll_flag), int(len(s))])
        except Exception as e:     # noqa: BLE001 – add / len must succeed for every value sequence
            raise ImplRaised(i, e)
    return tr


def evaluate(ctx: Ctx, cases, oracle_only=False):
    req = []
    keep = []
    for c in cases:
        ds = [digest(v, c['p']) for v in c['seq']]
        if len(set(ds)) != len(set(c['seq'])):
            ctx.count('skipped-digest-collision')
            continue
        c['_ds'] = ds
        keep.append(c)
        req.append(line(Atom(PROP), Atom('trace'), c['p'], c['W'], ds))
        req.append(line(Atom(PROP), Atom('spec'), c['p'], c['W'], ds))
    rep = run_driver(req)
    for k, c in enumerate(keep):
        mtrace, spec = rep[2 * k], rep[2 * k + 1]
        seq, W = c['seq'], c['W']
        try:
            tr = run_impl(c)
        except ImplRaised as r:
            ctx.evaluations += 1
            ctx.oracle_fail('raises', f'p={c["p"]} W={W} seq={seq[:14]}…: add / len raised {type(r.exc).__name__}: {r.exc} at insertion #{r.i} ({seq[r.i]!r})',
                            {'p': c['p'], 'W': W, 'seq': seq[:r.i + 1], 'twin': c.get('twin', False)})
            continue
        ctx.evaluations += 1
        if c.get('twin'):
            ctx.count('with-a-second-sketch-in-the-process')
        nd = len(set(seq))
        ctx.count(f'p={c["p"]},W={W}')
        ctx.count('crosses' if nd > W else ('at-boundary' if nd == W else 'warm-only'))
        first_pos = {}
        for i, v in enumerate(seq):
            first_pos.setdefault(v, i)
        dup_late = any(first_pos[v] != i and len(set(seq[:i])) >= W for i, v in enumerate(seq))
        if nd >= W and dup_late:
            ctx.nontrivial.add((c['p'], W, tuple(c['_ds'])))
        case = {'p': c['p'], 'W': W, 'seq': seq, 'twin': c.get('twin', False)}
        short = f'p={c["p"]} W={W}{" (a second sketch is fed other values alongside)" if c.get("twin") else ""} seq={seq[:14]}{"…" if len(seq) > 14 else ""}'
        if not oracle_only:
            ctx.traces += 1
            for i, (a, b) in enumerate(zip(tr, mtrace)):
                flag_m = (b[0] == Atom('true'))
                if a[0] != flag_m or abs(a[1] - b[1]) > (1 if a[0] else 0):
                    ctx.corr_fail('trace', f'{short}: after add #{i} ({seq[i]!r}) impl (sketch={a[0]}, len={a[1]}) vs model (sketch={flag_m}, len={b[1]})',
                                  {**case, 'seq': seq[:i + 1]})
                    break
        # oracle on the implementation: stateless spec on every prefix
        bad = False
        for i, (a, sp) in enumerate(zip(tr, spec)):
            d = len(set(seq[:i + 1]))
            if abs(a[1] - sp) > (1 if d > W else 0):
                what = 'exact count' if d <= W else 'estimate of the empty registers of the value set'
                key = 'exact-warm' if d <= W else 'sketch-size'
                ctx.oracle_fail(key, f'{short}: after add #{i} ({seq[i]!r}, {d} distinct so far) size {a[1]} but the {what} is {sp}', {**case, 'seq': seq[:i + 1]})
                bad = True
                break
            if i > 0 and seq[i] in seq[:i] and a[1] != tr[i - 1][1]:
                ctx.oracle_fail('dup-blind', f'{short}: re-adding {seq[i]!r} at position {i} changed the size {tr[i-1][1]} -> {a[1]}', {**case, 'seq': seq[:i + 1]})
                bad = True
                break
        if not bad and nd <= 6 * W:
            perm = seq[:]
            ctx.rng.shuffle(perm)
            try:
                tr2 = run_impl(c, perm)
            except ImplRaised:
                tr2 = None
            if tr2 and tr and tr2[-1][1] != tr[-1][1]:
                ctx.oracle_fail('order', f'{short}: final size {tr[-1][1]} but {tr2[-1][1]} when inserted in the order {perm[:14]}', {**case, 'perm': perm})
        ctx.sample({'p': c['p'], 'W': W, 'seq': seq[:10], 'impl_trace': tr[:10]})


def real_size(ctx: Ctx, upto, checkpoints):
    """the real p=19 sketch against the property directly (oracle only): constants, exactness <= 2^18, measured error beyond"""
    from outrank.algorithms.sketches.counting_ultiloglog import HyperLogLogWCache
    s = HyperLogLogWCache(0.005)
    consts = (s.p, s.m, s.warmup_size, s.width)
    if consts != (19, 2 ** 19, 2 ** 18, 45):
        ctx.oracle_fail('constants', f'sketch constants (p,m,warmup,width) = {consts}, expected (19, 524288, 262144, 45): "exact while <= 2^18" no longer holds by construction', {'consts': list(consts)})
        return
    rng = ctx.rng
    worst = 0.0
    n = 0
    cps = sorted(set(checkpoints))
    for i in range(upto):
        v = '%08x%04x' % (rng.randrange(2 ** 32), i % 65536) + str(i)
        s.add(v)
        n += 1
        if i % 5 == 0 or n == 2 ** 18:
            s.add(v)                             # immediate duplicate (also exactly at the warm-up boundary)
        if n in cps:
            got = len(s)
            ctx.evaluations += 1
            if n <= 2 ** 18:
                ctx.count('real-size-exact-checkpoints')
                if got != n:
                    ctx.oracle_fail('real-exact', f'real sketch: {n} distinct values (<= 2^18) inserted, size {got}', {'n': n})
                    return
            else:
                err = abs(got - n) / n
                worst = max(worst, err)
                ctx.count('real-size-estimate-checkpoints')
                if err > 0.02:
                    ctx.oracle_fail('real-2pct', f'real sketch: {n} distinct random values, size {got} (relative error {err:.4f} > 2%)', {'n': n})
                    return
    ctx.extra['measured_max_relative_error_beyond_warmup'] = worst
    ctx.extra['real_size_distinct_inserted'] = n


def corpus():
    return [{'p': 4, 'W': 8, 'seq': [f's{i}' for i in range(8)] + ['s3']},          # F9: duplicate exactly at the boundary
            {'p': 4, 'W': 8, 'seq': [f's{i}' for i in range(9)] + ['s8', 's0']},
            {'p': 3, 'W': 4, 'seq': ['a', 'b', 'a', 'c', 'd', 'e', 'e', 'a', 'f']},
            {'p': 5, 'W': 1, 'seq': [1, 1, 2, 2, 1, 3]}]


def run(ctx: Ctx):
    n = 8000 if ctx.thorough() else 500
    evaluate(ctx, corpus() + [gen_case(ctx.rng, ctx.thorough()) for _ in range(n)])
    W = 2 ** 18
    if ctx.thorough():
        real_size(ctx, 2 ** 21, [1, 1000, W - 1, W, W + 1, W + 1000] + [W + k * (2 ** 21 - W) // 36 for k in range(1, 37)])
    else:
        real_size(ctx, W + 3000, [1, 1000, 100000, W - 1, W, W + 1, W + 1000, W + 3000])


def search(ctx: Ctx):
    sub = Ctx(ctx.prop, ctx.tier)
    sub.rng.seed(f'search:{ctx.seed}')
    evaluate(sub, [gen_case(sub.rng, False) for _ in range(3000)], oracle_only=True)
    return sub.oracle_failures
