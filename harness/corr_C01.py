"""C01 – plain estimator equals the plug-in Shannon mutual information.
Tie: real njit `mutual_info_estimator_numba(Y, X, 1.0, False)` vs Lean `MI.estimator` at Float.
Oracle: Lean `pluginL` / `entropyL` (proved equal to the finset plug-in MI / entropy over ℝ) and the stated consequences,
evaluated on the implementation's outputs."""
from __future__ import annotations

from fractions import Fraction

from mi_common import VIEW_MODES, est_line, gen_pair, gen_series, impl_mi, impl_mi_history, impl_mi_views, kernel_key, series_views, tol
from vp_common import Atom, Ctx, line, run_driver

PROP = 'C01'
RULE = ('pairs (Y,X) from one PRNG: n in 1..64 (60%), 65..1500 (37%), few thousands (3%; thorough up to 20000); families '
        'independent uniform over cardinalities {1,2,3,7,sqrt n,n/2,n}^2, Zipf, constant sides, all-distinct sides, Y=X, Y=perm(X), '
        'Y=f(X), planted signal with flips, singleton strata mixed with large ones, sparse codes < 2^20, equal-sum / equal-histogram pairs; plus call HISTORIES: 2-5 pairs scored through the same two arrays '
        'refilled in place (the score must be a function of the vectors of the call only); plus VIEWS: the two vectors as overlapping / strided / reversed views of one buffer (lags of a series, same start address with strides 2 and 1, a matrix row against a column); plus WIDE-STRATUM pairs (n = 60000..200000, Y all distinct, X with 1-3 values: one stratum with up to 2*10^5 classes) checked against the closed form MI = H(X) without a model run. '
        'Non-trivial = both sides non-constant; distinct = distinct joint partition structure (first-occurrence relabeling of the zipped pair).')
ASSUMPTIONS = ['float32/fastmath rounding inside numba is outside the model: |impl - model_Float64| <= 4e-6*(1+ln n)',
               'codes >= 0 (property quantifier); n <= 20000 in the tie (theorems are for all n)']


def evaluate(ctx: Ctx, cases, oracle_only=False):
    req = []
    for fam, Y, X in cases:
        req.append(est_line(Y, X, Fraction(1), False))
        req.append(line(Atom('MI'), Atom('plugin'), Y, X))
        req.append(line(Atom('MI'), Atom('entropy'), Y))
        req.append(line(Atom('MI'), Atom('entropy'), X))
    rep = run_driver(req)
    for k, (fam, Y, X) in enumerate(cases):
        model, plugin, hy, hx = rep[4 * k:4 * k + 4]
        n = len(X)
        t = tol(n)
        ctx.evaluations += 1
        ctx.count('family:' + fam)
        ctx.count('n<=64' if n <= 64 else ('n<=2000' if n <= 2000 else 'n>2000'))
        if len(set(Y)) > 1 and len(set(X)) > 1:
            ctx.nontrivial.add(hash(kernel_key(Y, X)))
        a = impl_mi(Y, X, 1.0, False)
        b = impl_mi(X, Y, 1.0, False)
        case = {'family': fam, 'Y': Y, 'X': X}
        short = f'family={fam} n={n} Y={Y[:12]}{"…" if n > 12 else ""} X={X[:12]}{"…" if n > 12 else ""}'
        if not oracle_only:
            ctx.traces += 1
            if not abs(a - model) <= t:
                ctx.corr_fail('estimator', f'{short}: impl {a!r} vs model {model!r} (tol {t:.2e})', case)
        # oracle: the property's clauses on the implementation output
        if not abs(a - plugin) <= t:
            ctx.oracle_fail('plugin', f'{short}: score {a!r} != plug-in MI {plugin!r} (tol {t:.2e})', case)
        elif not abs(a - b) <= 2 * t:
            ctx.oracle_fail('symmetry', f'{short}: score(Y,X)={a!r} != score(X,Y)={b!r}', case)
        elif a < -t:
            ctx.oracle_fail('negative', f'{short}: score {a!r} is meaningfully negative', case)
        elif (len(set(Y)) == 1 or len(set(X)) == 1) and abs(a) > t:
            ctx.oracle_fail('constant', f'{short}: one side constant but score {a!r}', case)
        elif a > min(hy, hx) + 2 * t:
            ctx.oracle_fail('le-entropy', f'{short}: score {a!r} exceeds min entropy {min(hy, hx)!r}', case)
        elif Y == X and abs(a - hx) > t:
            ctx.oracle_fail('self', f'{short}: self score {a!r} != entropy {hx!r}', case)
        if fam in ('indep', 'planted', 'self'):
            ctx.sample({'family': fam, 'n': n, 'Y': Y[:16], 'X': X[:16], 'impl': a, 'plugin_spec': plugin})


def gen_history(rng):
    """2..5 pairs of one length, to be scored through the same two arrays refilled in place"""
    n = rng.choice([2, 3, 4, 8, 30, 200])
    out = []
    for _ in range(rng.randint(2, 5)):
        fam, Y, X = gen_pair(rng, False, maxn=n)
        while len(Y) != n:
            fam, Y, X = gen_pair(rng, False, maxn=n)
            if len(Y) < n:                                   # pad by repetition to the common length
                k = (n + len(Y) - 1) // len(Y)
                Y, X = (Y * k)[:n], (X * k)[:n]
        out.append([Y, X])
    return out


def evaluate_history(ctx: Ctx, histories, oracle_only=False):
    """the property is about the two VECTORS of a call: earlier calls on the same array objects must not matter"""
    req = [line(Atom('MI'), Atom('plugin'), Y, X) for h in histories for Y, X in h]
    rep = run_driver(req)
    k = 0
    for h in histories:
        vals = impl_mi_history(h, 1.0, False)
        ctx.evaluations += 1
        ctx.count('history:%d-calls' % len(h))
        for j, ((Y, X), a) in enumerate(zip(h, vals)):
            plugin = rep[k]; k += 1
            t = tol(len(X))
            if j > 0 and len(set(Y)) > 1 and len(set(X)) > 1:
                ctx.nontrivial.add(hash(('hist', kernel_key(Y, X), kernel_key(*h[j - 1]))))
            if not abs(a - plugin) <= t:
                # shrink: the failing call alone, else with its predecessor only
                small = [h[j]]
                if abs(impl_mi_history(small, 1.0, False)[-1] - plugin) <= t:
                    small = [h[j - 1], h[j]] if j > 0 else h[:j + 1]
                    if abs(impl_mi_history(small, 1.0, False)[-1] - plugin) <= t:
                        small = h[:j + 1]
                ctx.oracle_fail('plugin-history', f'call #{j} of a history on reused arrays (n={len(X)}) Y={Y[:12]} X={X[:12]}: score {a!r} != plug-in MI '
                                f'{plugin!r} (tol {t:.2e}); the same pair on fresh arrays: {impl_mi(Y, X, 1.0, False)!r}', {'history': small})
                break


def evaluate_views(ctx: Ctx, cases, oracle_only=False):
    """the two vectors handed in as overlapping VIEWS of one buffer: the score is a function of their contents all the same"""
    conts = []
    for c in cases:
        Yv, Xv = series_views(c['series'], c['mode'])
        conts.append((Yv.tolist(), Xv.tolist()))
    req = []
    for Y, X in conts:
        req.append(est_line(Y, X, Fraction(1), False))
        req.append(line(Atom('MI'), Atom('plugin'), Y, X))
    rep = run_driver(req)
    for k, (c, (Y, X)) in enumerate(zip(cases, conts)):
        model, plugin = rep[2 * k], rep[2 * k + 1]
        a, _, _, untouched = impl_mi_views(c['series'], c['mode'], 1.0, False)
        n = len(X)
        t = tol(n)
        ctx.evaluations += 1
        ctx.count('family:views/' + c['mode'])
        ctx.count('views:buffer-' + ('unchanged' if untouched else 'MODIFIED-by-the-call'))
        if len(set(Y)) > 1 and len(set(X)) > 1:
            ctx.nontrivial.add(hash(('views', c['mode'], kernel_key(Y, X))))
        short = (f'family=views mode={c["mode"]} (Y and X are views of ONE int32 buffer {c["series"][:14]}{"…" if len(c["series"]) > 14 else ""}) n={n} '
                 f'Y={Y[:12]} X={X[:12]}')
        if not oracle_only:
            ctx.traces += 1
            if not abs(a - model) <= t:
                ctx.corr_fail('estimator', f'{short}: impl {a!r} vs model {model!r} (tol {t:.2e})', {'views': c})
        if not abs(a - plugin) <= t:
            ctx.oracle_fail('plugin', f'{short}: score {a!r} != plug-in MI {plugin!r} of the two vectors (tol {t:.2e}); on fresh copies of the same '
                            f'contents the code gives {impl_mi(Y, X, 1.0, False)!r}', {'views': c})


def gen_views(rng):
    return {'series': gen_series(rng), 'mode': rng.choice(VIEW_MODES)}


def wide_pair(spec):
    """all-distinct Y against an X with kx values: one stratum holds ~n/kx classes.  Closed form (no model run needed, the Lean
    model is quadratic): Y determines X, so the plug-in MI is H(X) (theorem `MI.plugin_alldistinct_left`, Props/C01.lean); for kx = 1
    it is 0 (the property's own clause)."""
    import random
    r = random.Random(f'wide:{spec["seed"]}')
    n, kx = spec['n'], spec['kx']
    Y = r.sample(range(n), n)
    X = [r.randrange(kx) for _ in range(n)] if kx > 1 else [r.randrange(5)] * n
    return Y, X


def evaluate_wide(ctx: Ctx, specs):
    import math
    from collections import Counter
    for spec in specs:
        Y, X = wide_pair(spec)
        n = len(X)
        hx = -sum(c / n * math.log(c / n) for c in Counter(X).values())
        t = tol(n)
        ctx.evaluations += 1
        ctx.count('family:wide-stratum')
        ctx.count('n>2000')
        a, b = impl_mi(Y, X, 1.0, False), impl_mi(X, Y, 1.0, False)
        short = f'family=wide-stratum n={n}, Y all distinct, X with {spec["kx"]} value(s) (generated from seed {spec["seed"]!r})'
        case = {'wide': spec}
        if not abs(a - hx) <= t:
            ctx.oracle_fail('plugin', f'{short}: score {a!r} != plug-in MI = H(X) = {hx!r} (tol {t:.2e})', case)
        elif not abs(a - b) <= 2 * t:
            ctx.oracle_fail('symmetry', f'{short}: score(Y,X)={a!r} != score(X,Y)={b!r}', case)


def wide_specs(ctx, k):
    return [{'n': ctx.rng.choice([100000, 120000] if i == 0 else [60000, 100000, 200000]), 'kx': (1 if i == 0 else ctx.rng.choice([1, 2, 3])),
             'seed': ctx.rng.randrange(10 ** 6)} for i in range(k)]


def corpus():
    return [('corpus', [0, 1, 0, 2], [1, 1, 0, 0]), ('corpus', [0], [0]), ('corpus', [3, 3, 3], [0, 1, 2]),
            ('corpus', [0, 1, 2, 3], [0, 1, 2, 3]), ('corpus', [0, 1, 0, 1, 2, 2, 1, 0], [1, 0, 1, 0, 2, 2, 0, 1])]


def run(ctx: Ctx):
    n = 6000 if ctx.thorough() else 900
    evaluate(ctx, corpus() + [gen_pair(ctx.rng, ctx.thorough()) for _ in range(n)])
    evaluate_history(ctx, [[[[0, 0], [0, 1]], [[0, 1], [0, 1]]]] + [gen_history(ctx.rng) for _ in range(600 if ctx.thorough() else 60)])
    evaluate_views(ctx, [gen_views(ctx.rng) for _ in range(1500 if ctx.thorough() else 150)])
    evaluate_wide(ctx, wide_specs(ctx, 4 if ctx.thorough() else 1))


def replay(ctx: Ctx, payload):
    c = payload['case']
    if isinstance(c, dict) and 'history' in c:
        evaluate_history(ctx, [c['history']])
    elif isinstance(c, dict) and 'views' in c:
        evaluate_views(ctx, [c['views']])
    elif isinstance(c, dict) and 'wide' in c:
        evaluate_wide(ctx, [c['wide']])
    else:
        evaluate(ctx, [(c.get('family', 'replay'), c['Y'], c['X'])])


def search(ctx: Ctx):
    import itertools
    sub = Ctx(ctx.prop, ctx.tier)
    sub.rng.seed(f'search:{ctx.seed}')
    cases = []
    for n in range(1, 6):                       # all joint tables over <= 3x3 codes, n <= 5
        for Y in itertools.product(range(3), repeat=n):
            for X in itertools.product(range(3), repeat=n):
                cases.append(('exhaustive', list(Y), list(X)))
    cases += [gen_pair(sub.rng, False, maxn=400) for _ in range(3000)]
    evaluate(sub, cases, oracle_only=True)
    evaluate_history(sub, [gen_history(sub.rng) for _ in range(400)], oracle_only=True)
    evaluate_views(sub, [gen_views(sub.rng) for _ in range(1500)], oracle_only=True)
    evaluate_wide(sub, wide_specs(sub, 2))
    return sub.oracle_failures
