"""C07 – capped combination sampling is fair over any sequence of batches.
Tie: real `prior_combinations_sample` vs the Lean model `C07.call`, on whole histories.
Oracle: the property's clauses (Lean `callSpecB`, `spreadB`, accounting) on the IMPLEMENTATION's outputs."""
from __future__ import annotations

import types

from vp_common import Atom, Ctx, Failure, line, run_driver

PROP = 'C07'
RULE = ('histories of calls (candidate list, cap) on the process-global counter, generated from one PRNG: '
        'stable duplicate-free lists presented in random order with changing caps (0..n+3), plus unstable lists '
        '(growing/shrinking, with duplicates), plus a stable list of >30000 candidates with a small cap. Non-trivial = history with >= 2 calls, at least one cap strictly '
        'between 0 and the list size; distinct = distinct (lists, caps) sequence.')
ASSUMPTIONS = ['CPython sorted() is stable (modelled by a stable insertion sort)',
               'combination tuples are modelled by natural-number ids (only equality/hash of keys is used by the code)',
               'cap >= 0 (a negative cap would be a Python negative slice; excluded by the argument parser default and by the property)']


def key_of(i, oriented=False):
    if oriented:                                # candidates 2k and 2k+1 are the two orientations of one feature pair
        a, b = f'f{i // 2}', f'h{(i // 2) % 5}'
        return (a, b) if i % 2 == 0 else (b, a)
    return (f'f{i}', f'g{i % 7}')


def gen_huge(rng, big=None):
    """a stable list with more than 30000 distinct candidates (e.g. all pairs of 250 features) and a small cap"""
    n = rng.randint(30500, 31500)
    base = list(range(1000, 1000 + n))
    cap = rng.choice([1, 3, 7])
    if big if big is not None else rng.random() < 0.5:
        # beyond 2^16 candidates (all pairs of 363+ features), with a cap large enough that a few batches go once round the list
        n = rng.randint(69000, 75000)
        base = list(range(1000, 1000 + n))
        cap = rng.choice([2048, 3000, 4096, 5000])
        return {'kind': 'stable-huge', 'base': base, 'calls': [(base, cap)] * (n // cap + 3), 'nomodel': True}
    return {'kind': 'stable-huge', 'base': base, 'calls': [(base, cap)] * rng.choice([3, 4])}


def gen_history(rng, thorough):
    kind = rng.choice(['stable', 'stable', 'stable', 'unstable'])
    ncalls = rng.choice([1, 2, 3, 5, 8, 13, 30] + ([80, 200] if thorough else [60]))
    n = rng.choice([0, 1, 2, 3, 4, 5, 7, 10, 20, 40, 60])
    base = rng.sample(range(100), n)
    calls = []
    fixed_cap = rng.choice([None, None, rng.randint(0, n + 3)])
    container = rng.choice(['fresh', 'fresh', 'same-object', 'same-object', 'tuple'])
    for _ in range(ncalls):
        if kind == 'stable':
            l = base[:]
            if rng.random() < 0.7 and container != 'same-object':
                rng.shuffle(l)
        else:
            m = rng.randint(0, min(100, n + 5))
            l = [rng.randrange(100) for _ in range(m)] if rng.random() < 0.3 else rng.sample(range(100), m)
        cap = fixed_cap if fixed_cap is not None else rng.choice([0, 1, len(l) // 2, max(0, len(l) - 1), len(l), len(l) + 3, rng.randint(0, len(l) + 3)])
        calls.append((l, cap))
    return {'kind': kind, 'base': sorted(base), 'calls': calls, 'container': container, 'oriented': rng.random() < 0.3}


def run_impl(case):
    from outrank import core_ranking as cr
    cr.GLOBAL_PRIOR_COMB_COUNTS.clear()
    rev = {}
    steps = []
    held = None                 # 'same-object': the caller keeps ONE candidate list / tuple and hands it in again while its content is the same
    for l, cap in case['calls']:
        combos = []
        for i in l:
            k = key_of(i, case.get('oriented', False))
            rev[k] = i
            combos.append(k)
        if case.get('container') == 'same-object':
            if held is not None and held[0] == l:
                combos = held[1]
            else:
                held = (list(l), combos)
        elif case.get('container') == 'tuple':
            combos = tuple(combos)
        args = types.SimpleNamespace(combination_number_upper_bound=cap)
        if case.get('nomodel'):
            # 70000 candidates x dozens of calls: the clauses are evaluated here, call by call, instead of keeping every counter state
            ret = cr.prior_combinations_sample(combos, args)
            cnt = cr.GLOBAL_PRIOR_COMB_COUNTS
            acc = case.setdefault('_acc', {})
            for k in ret:
                acc[k] = acc.get(k, 0) + 1
            vals = [cnt.get(k, 0) for k in combos]
            lo, hi = min(vals), max(vals)
            over = next((rev[k] for k in combos if cnt.get(k, 0) == hi), None)
            under = next((rev[k] for k in combos if cnt.get(k, 0) == lo), None)
            steps.append({'compact': True, 'ret': [rev[k] for k in ret], 'minmax': [lo, hi], 'witness': [over, under],
                          'accounting_ok': {k: v for k, v in cnt.items() if v} == acc})
            continue
        foreign = {}

        def ident(k):
            # a key the caller never passed (a re-oriented or otherwise rewritten candidate) gets an id outside the candidates':
            # it then fails the membership / accounting clauses instead of crashing the harness
            if k in rev:
                return rev[k]
            return foreign.setdefault(repr(k), 10 ** 6 + len(foreign))
        pre = sorted((ident(k), v) for k, v in cr.GLOBAL_PRIOR_COMB_COUNTS.items())
        ret = cr.prior_combinations_sample(combos, args)
        post = sorted((ident(k), v) for k, v in cr.GLOBAL_PRIOR_COMB_COUNTS.items())
        steps.append({'pre': [list(p) for p in pre], 'ret': [ident(k) for k in ret], 'post': [list(p) for p in post],
                      'foreign': sorted(foreign)})
    cr.GLOBAL_PRIOR_COMB_COUNTS.clear()
    case.pop('_acc', None)
    return steps


def model_lines(case):
    if case.get('nomodel'):                    # 70000-element lists: judged by the linear oracle clauses only
        return []
    ls = [line(Atom(PROP), Atom('reset'))]
    for l, cap in case['calls']:
        ls.append(line(Atom(PROP), Atom('call'), l, cap))
        ls.append(line(Atom(PROP), Atom('counts')))
    return ls


def oracle_lines(case, steps):
    ls = []
    if case['kind'] == 'stable-huge':          # the quadratic Lean spec ops are replaced by the linear checks in evaluate()
        return ls
    for (l, cap), st in zip(case['calls'], steps):
        ls.append(line(Atom(PROP), Atom('spec'), st['pre'], l, cap, st['ret']))
        if case['kind'] == 'stable':
            ls.append(line(Atom(PROP), Atom('spread'), st['post'], case['base']))
    return ls


def evaluate(ctx: Ctx, cases, oracle_only=False):
    """runs impl + model + oracle on the cases; records failures in ctx"""
    impl = [run_impl(c) for c in cases]
    req = []
    spans = []
    for c, st in zip(cases, impl):
        m = [] if oracle_only else model_lines(c)
        o = oracle_lines(c, st)
        spans.append((len(req), len(m), len(o)))
        req += m + o
    rep = run_driver(req)
    for c, st, (a, nm, no) in zip(cases, impl, spans):
        ctx.evaluations += 1
        ncalls = len(c['calls'])
        if ncalls >= 2 and any(0 < cap < len(l) for l, cap in c['calls']):
            ctx.nontrivial.add(hash(repr(c['calls'])))
        ctx.count('kind:' + c['kind'])
        ctx.count('candidate-container:' + c.get('container', 'fresh'))
        ctx.count('candidates:' + ('both-orientations-of-feature-pairs' if c.get('oriented') else 'one-orientation'))
        ctx.count('calls:%d' % (ncalls if ncalls < 10 else (ncalls // 10) * 10))
        for l, cap in c['calls']:
            ctx.count('cap<n' if cap < len(l) else 'cap>=n')
        mrep, orep = rep[a:a + nm], rep[a + nm:a + nm + no]
        # correspondence
        if not oracle_only and not c.get('nomodel'):
            for i, s in enumerate(st):
                mret, mcnt = mrep[1 + 2 * i], mrep[2 + 2 * i]
                mcnt = [x for x in mcnt]
                if mret != s['ret'] or [list(x) for x in mcnt] != s['post']:
                    ctx.corr_fail('call', f'call #{i}: impl returned {str(s["ret"])[:200]}, model {str(mret)[:200]}; impl counter {str(s["post"])[:200]}, model {str(mcnt)[:200]}',
                                  {**c, 'calls': c['calls'][:i + 1]} if c['kind'] != 'stable-huge' else {'kind': c['kind'], 'n': len(c['base'])})
                    break
            ctx.traces += 1
        # oracle
        j = 0
        acc = {}
        for i, ((l, cap), s) in enumerate(zip(c['calls'], st)):
            for k in s['ret']:
                acc[k] = acc.get(k, 0) + 1
            if c['kind'] == 'stable-huge':
                # same clauses, evaluated in linear time: |ret| = min(cap,n), distinct members of the list, spread <= 1, accounting
                short = {'kind': c['kind'], 'n': len(l), 'first_key': l[0], 'cap': cap, 'ncalls': i + 1}
                if s.get('compact'):
                    if len(s['ret']) != min(cap, len(l)) or len(set(s['ret'])) != len(s['ret']) or not set(s['ret']) <= set(l):
                        ctx.oracle_fail('per-call-clauses', f'huge list n={len(l)} cap={cap} call #{i}: returned {s["ret"][:12]}… ({len(s["ret"])} items)', short)
                        break
                    if s['minmax'][1] - s['minmax'][0] > 1:
                        ctx.oracle_fail('fairness', f'huge stable list of n={len(l)} distinct candidates, cap={cap}: after call #{i} the evaluation counts range '
                                        f'{s["minmax"][0]}..{s["minmax"][1]} (candidate #{s["witness"][0] - l[0]} of the list was evaluated {s["minmax"][1]} times, '
                                        f'candidate #{s["witness"][1] - l[0]} {s["minmax"][0]} times)', short)
                        break
                    if not s['accounting_ok']:
                        ctx.oracle_fail('accounting', f'huge list n={len(l)} cap={cap}: after call #{i} the reported counts differ from the selections so far', short)
                        break
                    continue
                post = dict((k, v) for k, v in s['post'])
                cnts = [post.get(k, 0) for k in c['base']]
                if len(s['ret']) != min(cap, len(l)) or len(set(s['ret'])) != len(s['ret']) or not set(s['ret']) <= set(l):
                    ctx.oracle_fail('per-call-clauses', f'huge list n={len(l)} cap={cap} call #{i}: returned {s["ret"]}', short)
                    break
                if max(cnts) - min(cnts) > 1:
                    ctx.oracle_fail('fairness', f'huge list n={len(l)} cap={cap}: after call #{i} counts range {min(cnts)}..{max(cnts)} '
                                    f'(selections so far {sorted(acc.items())[:8]})', short)
                    break
                if {k: v for k, v in post.items() if v} != acc:
                    ctx.oracle_fail('accounting', f'huge list n={len(l)} cap={cap}: after call #{i} reported non-zero counts '
                                    f'{sorted((k, v) for k, v in post.items() if v)[:8]} != selections so far {sorted(acc.items())[:8]}', short)
                    break
                continue
            ok = orep[j]; j += 1
            short = {**c, 'calls': c['calls'][:i + 1]}
            if ok != Atom('true'):
                ctx.oracle_fail('per-call-clauses', f'call #{i} cands={l} cap={cap} pre={s["pre"]} returned {s["ret"]}: violates '
                                'length=min(cap,n) / subset / distinct / least-evaluated-first', short)
                break
            if c['kind'] == 'stable':
                sp = orep[j]; j += 1
                if sp != Atom('true'):
                    ctx.oracle_fail('fairness', f'after call #{i} the counts of the stable list {c["base"]} differ by more than one: {s["post"]}', short)
                    break
            post = {k: v for k, v in s['post'] if v != 0}
            if post != acc:
                ctx.oracle_fail('accounting', f'after call #{i} reported counts {s["post"]} != selections so far {sorted(acc.items())}' +
                                (f' (ids from 1000000 on are keys of the counter that were never passed as candidates: {s["foreign"]})' if s.get('foreign') else ''), short)
                break
        if c['kind'] != 'stable-huge':
            ctx.sample({'kind': c['kind'], 'calls': c['calls'][:3], 'impl_first_returns': [s['ret'] for s in st[:3]]})


def replay(ctx: Ctx, payload):
    c = payload['case']
    if c.get('kind') == 'stable-huge' and 'calls' not in c:      # stored in short form
        base = list(range(c.get('first_key', 1000), c.get('first_key', 1000) + c['n']))
        c = {'kind': 'stable-huge', 'base': base, 'calls': [(base, c.get('cap', 3))] * c.get('ncalls', 4), 'nomodel': c['n'] > 40000}
        if c['nomodel']:
            c['calls'] = [(base, payload['case'].get('cap', 3))] * (len(base) // max(1, payload['case'].get('cap', 3)) + 3)
    evaluate(ctx, [c])


def corpus():
    return [
        {'kind': 'stable', 'base': [1, 2, 3], 'calls': [([3, 1, 2], 2), ([2, 1, 3], 2), ([1, 2, 3], 5), ([1, 2, 3], 0)]},
        {'kind': 'stable', 'base': [0, 1, 2, 3, 4], 'calls': [([0, 1, 2, 3, 4], 2)] * 7},
        {'kind': 'unstable', 'base': [], 'calls': [([0, 2], 2), ([0, 3], 2), ([0, 0, 1], 2)]},
        {'kind': 'stable', 'base': [], 'calls': [([], 3), ([], 0)]},
    ]


def run(ctx: Ctx):
    n = 3000 if ctx.thorough() else 300
    cases = corpus() + [gen_history(ctx.rng, ctx.thorough()) for _ in range(n)]
    cases += [gen_huge(ctx.rng, big=(i % 2 == 0)) for i in range(6 if ctx.thorough() else 2)]
    evaluate(ctx, cases)


def search(ctx: Ctx):
    """extended failing-input search (oracle only, 8x budget)"""
    sub = Ctx(ctx.prop, ctx.tier)
    sub.rng.seed(f'search:{ctx.seed}')
    cases = [gen_history(sub.rng, True) for _ in range(2400)]
    evaluate(sub, cases, oracle_only=True)
    return sub.oracle_failures
