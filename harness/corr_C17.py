"""C17 – the 3MR ranking is a greedy-optimal permutation of the features.
Tie: the real `rank_features_3MR` (run in sub-processes under several PYTHONHASHSEEDs, because it iterates a Python `set` of
feature names) vs the Lean model `C17.rank3mr`.  All scores are integer multiples of lcm(1..30) times a power of two, so that
every float operation the implementation performs is exact (re-checked per case); they travel to Lean as exact rationals.
Oracle = `C17 check` (Lean `checkTable`, proved ⇔ the property) applied to the IMPLEMENTATION's table: any greedy-optimal
permutation is accepted (the property lets ties break either way).  Correspondence: on inputs whose greedy ranking is unique
(`isStrictB` on the model's ranking, theorem `greedy_unique_of_strict`) the implementation's ranking must equal the model's."""
from __future__ import annotations

import json
import os
import subprocess
import sys
import tempfile
from fractions import Fraction

import c17_worker as W
from vp_common import REPO, Atom, Ctx, InfraError, line, run_driver

PROP = 'C17'
RULE = ('score dictionaries over n in 1..30 string-named features (n drawn from 1,1,2,2,3,3,4,5,6,7,8,10,12,15,20,25,30) in a '
        'shuffled dict order; integer multipliers from families ties{0,1}/{-1,0,1}, small -6..6, wide -190..190, nonneg, neg, '
        'constant; pair dictionaries dense / dense+self / sparse / very sparse / empty / symmetric / one-orientation-only / '
        'with foreign (non-feature) keys, independently for redundancy and relation; strategy in median|mean|sum; '
        'alpha, beta in {0,1/2,1,2} (floats or ints); value = multiplier * lcm(1..30) * 2^scale, scale in {0,3,-10,-41,-45} (12 %: unit 1 and pair scores +-(2^24 + d), |d| <= 3, doubled or not: large magnitudes, small differences), '
        'python ints or floats. Every case runs under PYTHONHASHSEED 0,1,2 (thorough: 0..4). Non-trivial = n >= 3 and (the '
        'greedy ranking differs from the relevance order, or some maximum is tied); distinct = distinct case content.')
ASSUMPTIONS = ['float rounding is outside the theorems (scores are exact rationals in Lean): inputs are generated so that every float '
               'operation of the implementation is exact, and this is re-checked per case by replaying the numpy operations against '
               'exact fractions along the implementation\'s own ranking',
               'finite scores only: NaN / +-inf are outside the property ("finite ... scores") and outside the generator; with an '
               'all-NaN or all -inf candidate set the implementation would append None',
               'an empty relevance dictionary raises ValueError (max of an empty sequence): outside the quantifier (1..30 features)',
               'Python set iteration order is a parameter of the model (iterOrder); the oracle accepts any tie-break, so the '
               'hash seed cannot cause an alarm; the observed agreement of the implementation\'s tie-breaks with "first strict '
               'maximum in set order" is recorded in the evidence only']
UNIT = W.UNIT
COEFS = ['0', '1/2', '1', '2']
SIZES = [1, 1, 2, 2, 3, 3, 4, 5, 6, 7, 8, 10, 12, 15, 20, 25, 30]
VALUE_FAMS = ['ties01', 'ties-101', 'small', 'small', 'wide', 'wide', 'nonneg', 'neg', 'constant']
STRUCTS = ['dense', 'dense', 'dense+self', 'sparse', 'sparse', 'very-sparse', 'empty', 'symmetric', 'one-orientation', 'foreign']
NAME_POOLS = ['f', 'feature_', 'col-', 'é', '']


def draw(rng, fam):
    if fam == 'ties01':
        return rng.randint(0, 1)
    if fam == 'ties-101':
        return rng.randint(-1, 1)
    if fam == 'small':
        return rng.randint(-6, 6)
    if fam == 'wide':
        return rng.randint(-190, 190)
    if fam == 'nonneg':
        return rng.randint(0, 190)
    if fam == 'neg':
        return rng.randint(-190, 0)
    if fam == 'big24':                      # magnitudes beyond 2^24 whose differences are tiny next to them (unit 1)
        return rng.choice([1, 1, -1, 2]) * (2 ** 24 + rng.randint(-3, 3))
    return 3                                # constant


def gen_pairs(rng, n, struct, fam, nforeign):
    out = {}
    idx = list(range(n))
    if struct == 'empty':
        return []
    p = {'dense': 1.0, 'dense+self': 1.0, 'sparse': 0.3, 'very-sparse': 0.05, 'symmetric': 0.6, 'one-orientation': 0.8, 'foreign': 0.4}[struct]
    for a in idx:
        for b in idx:
            if a == b and struct != 'dense+self':
                continue
            if struct in ('symmetric', 'one-orientation') and a > b:
                continue
            if rng.random() < p:
                v = draw(rng, fam)
                if struct == 'symmetric':
                    out[(a, b)] = v
                    out[(b, a)] = v
                elif struct == 'one-orientation' and rng.random() < 0.5:
                    out[(b, a)] = v
                else:
                    out[(a, b)] = v
    if struct == 'foreign':
        for _ in range(rng.randint(1, 6)):
            a = rng.randrange(n + nforeign)
            b = n + rng.randrange(nforeign)
            if rng.random() < 0.5:
                a, b = b, a
            out[(a, b)] = draw(rng, fam)
    items = [[a, b, v] for (a, b), v in out.items()]
    rng.shuffle(items)
    return items


def gen_case(rng, thorough=False):
    n = rng.choice(SIZES)
    pool = rng.choice(NAME_POOLS)
    ids = rng.sample(range(1000), n)
    names = [f'{pool}{i}' for i in ids]
    u = rng.random()
    if u < 0.2:                                   # integer feature names (the default column labels of a pandas frame): 0 is among them
        names = list(range(n))
        rng.shuffle(names)
    elif u < 0.3:                                 # an unnamed column
        names[rng.randrange(n)] = ''
    foreign = ['label', 'x AND_REL y']
    vf_rel = rng.choice(VALUE_FAMS)
    vf_pair = rng.choice(VALUE_FAMS + [vf_rel])
    s_red, s_rln = rng.choice(STRUCTS), rng.choice(STRUCTS)
    scale = rng.choice([0, 0, 3, -10, -41, -41, -45])
    c = {'names': names, 'foreign': foreign, 'scale': scale,
         'rel': [draw(rng, vf_rel) for _ in range(n)],
         'red': gen_pairs(rng, n, s_red, vf_pair, len(foreign)),
         'rln': gen_pairs(rng, n, s_rln, vf_pair, len(foreign)),
         'strategy': rng.choice(['median', 'mean', 'sum']),
         'alpha': rng.choice(COEFS), 'beta': rng.choice(COEFS),
         'coef_int': rng.random() < 0.3, 'pyint': scale >= 0 and rng.random() < 0.4,
         'fam': f'rel:{vf_rel} pair:{vf_pair} red:{s_red} rln:{s_rln}'}
    if rng.random() < 0.12:
        # scores of large magnitude that differ by little: unit 1 instead of lcm(1..30) (an integer up to 2^26 and every sum of
        # 30 of them is exact in binary64); the mean of k of them is exact only for k a power of two, hence at most 3 features there
        c['unit'], c['scale'], c['pyint'] = 1, 0, rng.random() < 0.4
        if c['strategy'] == 'mean' and n > 3:
            n = 3
            c['names'] = names = names[:3]
        c['rel'] = [draw(rng, 'small') for _ in range(n)]
        s_red = rng.choice(['dense', 'dense', 'sparse', 'one-orientation'])
        c['red'] = gen_pairs(rng, n, s_red, 'big24', len(foreign))
        c['rln'] = gen_pairs(rng, n, s_rln, rng.choice(['big24', 'small']), len(foreign))
        c['fam'] = f'rel:small pair:big24 red:{s_red} rln:{s_rln}'
    if rng.random() < 0.25 and n >= 2:
        # call HISTORY: the function is first called on dictionaries with the same keys and other values (the values of this
        # case rotated), then the SAME dict objects are updated in place to this case's values and the function is called again;
        # the ranking judged is the second call's – it must be greedy-optimal for the dictionaries as they are at that call
        def rot(l, k=1):
            return l[k:] + l[:k] if l else l
        prev = {k: v for k, v in c.items()}
        prev['rel'] = rot(c['rel'])
        prev['red'] = [[a, b, m] for (a, b, _), m in zip(c['red'], rot([t[2] for t in c['red']]))]
        prev['rln'] = [[a, b, m] for (a, b, _), m in zip(c['rln'], rot([t[2] for t in c['rln']], 2))]
        c['prev'] = prev
        c['fam'] += ' +history'
    return c


def corpus():
    base = {'foreign': ['label'], 'scale': 0, 'coef_int': False, 'pyint': False, 'fam': 'corpus'}
    return [
        {**base, 'names': ['only'], 'rel': [-4], 'red': [[0, 0, 9]], 'rln': [], 'strategy': 'median', 'alpha': '1', 'beta': '1'},
        # two tied features: either order is greedy
        {**base, 'names': ['b', 'a'], 'rel': [2, 2], 'red': [], 'rln': [], 'strategy': 'mean', 'alpha': '1', 'beta': '1'},
        # first maximum in dict order is NOT the only admissible head
        {**base, 'names': ['x', 'y', 'z'], 'rel': [1, 5, 5], 'red': [[1, 2, 4], [2, 1, 1]], 'rln': [], 'strategy': 'sum', 'alpha': '1', 'beta': '0'},
        # lookup orientation: only (candidate, ranked) keys present – they must NOT be used
        {**base, 'names': ['p', 'q', 'r'], 'rel': [9, 5, 4], 'red': [[1, 0, 50], [2, 0, 0]], 'rln': [], 'strategy': 'sum', 'alpha': '2', 'beta': '1'},
        # median of an even count (mean of the two middle values) decides: against [a,b] c has median 5, d has 4
        {**base, 'names': ['a', 'b', 'c', 'd'], 'rel': [100, 90, 10, 10],
         'red': [[0, 1, 0], [0, 2, 0], [1, 2, 10], [0, 3, 4], [1, 3, 4]], 'rln': [], 'strategy': 'median', 'alpha': '1', 'beta': '1', 'scale': -41},
        # relation term with beta = 1/2 and negative values, foreign keys ignored
        {**base, 'names': ['u', 'v', 'w'], 'rel': [-1, -2, -3], 'red': [[0, 3, 7]], 'rln': [[0, 2, 6], [0, 1, -2], [3, 1, 100]],
         'strategy': 'mean', 'alpha': '0', 'beta': '1/2', 'pyint': True},
    ]


# ---------------------------------------------------------------------------------------------
# running the implementation

def run_workers(cases, seeds, chunks):
    """every case under every hash seed, in parallel sub-processes; returns {seed: [result per case]}"""
    for i, c in enumerate(cases):
        c['id'] = i
    tmp = tempfile.mkdtemp(prefix='c17_')
    procs = []
    try:
        size = max(1, (len(cases) + chunks - 1) // chunks)
        parts = [cases[i:i + size] for i in range(0, len(cases), size)]
        files = []
        for k, part in enumerate(parts):
            p = os.path.join(tmp, f'cases{k}.jsonl')
            with open(p, 'w') as fh:
                for c in part:
                    fh.write(json.dumps(c) + '\n')
            files.append(p)
        for seed in seeds:
            env, cmd = worker_env(seed)
            for p in files:
                procs.append((seed, subprocess.Popen(cmd + [p], env=env, stdout=subprocess.PIPE, stderr=subprocess.PIPE)))
        out = {str(s): [None] * len(cases) for s in seeds}
        for seed, pr in procs:
            so, se = pr.communicate(timeout=3600)
            if pr.returncode != 0:
                raise InfraError(f'c17_worker (PYTHONHASHSEED={seed}) exited {pr.returncode}: {se.decode()[-600:]}')
            for ln in so.decode().splitlines():
                r = json.loads(ln)
                out[str(seed)][r['id']] = r
        for s, rs in out.items():
            if any(r is None for r in rs):
                raise InfraError(f'c17_worker (PYTHONHASHSEED={s}) lost results')
        return out
    finally:
        for _, pr in procs:
            if pr.poll() is None:
                pr.kill()
        for f in os.listdir(tmp):
            os.unlink(os.path.join(tmp, f))
        os.rmdir(tmp)


def worker_env(seed):
    here = os.path.dirname(os.path.abspath(__file__))
    env = dict(os.environ)
    env['PYTHONHASHSEED'] = str(seed)
    env['PYTHONDONTWRITEBYTECODE'] = '1'
    env['PYTHONPATH'] = REPO + os.pathsep + here + os.pathsep + env.get('PYTHONPATH', '')
    return env, [sys.executable, os.path.join(here, 'c17_worker.py')]


class Server:
    """one persistent worker (PYTHONHASHSEED=0) answering case by case – used for shrinking (deterministic, no re-import)"""
    def __init__(self):
        env, cmd = worker_env('0')
        self.p = subprocess.Popen(cmd + ['-'], env=env, stdin=subprocess.PIPE, stdout=subprocess.PIPE, stderr=subprocess.DEVNULL, text=True)

    def run(self, cases):
        out = []
        for c in cases:
            self.p.stdin.write(json.dumps(c) + '\n')
            self.p.stdin.flush()
            ln = self.p.stdout.readline()
            if not ln:
                raise InfraError('c17_worker (server mode) died')
            out.append(json.loads(ln))
        return {'0': out}

    def close(self):
        try:
            self.p.stdin.close()
            self.p.wait(timeout=30)
        except Exception:  # noqa: BLE001
            self.p.kill()


# ---------------------------------------------------------------------------------------------
# exact values, wire form, float-exactness re-check

def exact(c, m):
    return Fraction(m * c.get('unit', UNIT)) * (Fraction(2) ** c['scale'])


def load_line(c):
    rel = [[i, exact(c, m)] for i, m in enumerate(c['rel'])]
    red = [[a, b, exact(c, m)] for a, b, m in c['red']]
    rln = [[a, b, exact(c, m)] for a, b, m in c['rln']]
    return line(Atom(PROP), Atom('load'), rel, red, rln, Atom(c['strategy']), Fraction(c['alpha']), Fraction(c['beta']))


def float_exact(c, feats):
    """replay the numpy/float operations of the implementation along its own ranking `feats` against exact fractions"""
    import numpy as np
    rel, red, rln, alpha, beta = W.build(c)
    names = c['names'] + c.get('foreign', [])
    relX = {c['names'][i]: exact(c, m) for i, m in enumerate(c['rel'])}
    redX = {(names[a], names[b]): exact(c, m) for a, b, m in c['red']}
    rlnX = {(names[a], names[b]): exact(c, m) for a, b, m in c['rln']}
    aX, bX = Fraction(c['alpha']), Fraction(c['beta'])
    st = c['strategy']

    def agg(vals):
        return np.median(vals) if st == 'median' else (np.mean(vals) if st == 'mean' else sum(vals))

    def aggX(vals):
        if st == 'sum':
            return sum(vals, Fraction(0))
        if st == 'mean':
            return sum(vals, Fraction(0)) / len(vals)
        s = sorted(vals)
        k = len(s)
        return s[k // 2] if k % 2 else (s[k // 2 - 1] + s[k // 2]) / 2

    def fr(x):
        return Fraction(x) if isinstance(x, int) else Fraction(float(x))

    for k in range(1, len(feats)):
        pre = feats[:k]
        for g in rel:
            if g in pre:
                continue
            r1 = agg([red.get((r, g), 0) for r in pre])
            r2 = agg([rln.get((r, g), 0) for r in pre])
            x1 = aggX([redX.get((r, g), Fraction(0)) for r in pre])
            x2 = aggX([rlnX.get((r, g), Fraction(0)) for r in pre])
            imp = rel[g] - alpha * r1 + beta * r2
            if fr(r1) != x1 or fr(r2) != x2 or fr(imp) != relX[g] - aX * x1 + bX * x2:
                return False
    return True


# ---------------------------------------------------------------------------------------------
# judging

def short(c):
    n = len(c['names'])
    s = (('[second call on the same dict objects, updated in place after an earlier call with rotated values] ' if c.get('prev') else '') +
         f'n={n} strategy={c["strategy"]} alpha={c["alpha"]} beta={c["beta"]} unit={"lcm(1..30)" if c.get("unit", UNIT) == UNIT else c["unit"]}*2^{c["scale"]} '
         f'relevance={dict(zip(c["names"], c["rel"]))}')
    names = c['names'] + c.get('foreign', [])
    if len(c['red']) <= 12:
        s += ' redundancy=' + str({(names[a], names[b]): m for a, b, m in c['red']})
    else:
        s += f' redundancy={len(c["red"])} pairs'
    if len(c['rln']) <= 12:
        s += ' relation=' + str({(names[a], names[b]): m for a, b, m in c['rln']})
    else:
        s += f' relation={len(c["rln"])} pairs'
    return s[:900]


def judge(cases, runs, check_exact=True):
    """Lean model + Lean oracle on the implementation outputs `runs` = {seed: [result per case]}.
    Returns per case: dict(model, strict, outs={seed: result}, fails=[(key, desc)], tiebreak=[bool per seed])"""
    seeds = list(runs)
    req, plan = [], []
    for i, c in enumerate(cases):
        idx = {nm: k for k, nm in enumerate(c['names'])}
        req.append(load_line(c))
        req.append(line(Atom(PROP), Atom('modelstrict')))
        tables = {}
        for s in seeds:
            r = runs[s][i]
            if 'exc' in r:
                continue
            feats, ranks = r['features'], r['ranks']
            ranks = ranks + [0] * (len(feats) - len(ranks))
            tbl = tuple((idx.get(f, 999999) if f is not None else 999999, rk) for f, rk in zip(feats, ranks))
            if tbl not in tables:
                tables[tbl] = s
                req.append(line(Atom(PROP), Atom('check'), [list(t) for t in tbl]))
        plan.append(tables)
    rep = run_driver(req)
    pos = 0
    res = []
    follow = []          # (case index, kind, extra) for the second driver round
    for i, c in enumerate(cases):
        model, strict = rep[pos + 1]
        pos += 2
        out = {'model': [int(x) for x in model], 'strict': strict == Atom('true'), 'fails': [], 'outs': {s: runs[s][i] for s in seeds},
               'tiebreak': []}
        for s in seeds:
            r = runs[s][i]
            if 'exc' in r:
                out['fails'].append(('raises', f'{short(c)}: rank_features_3MR raised {r["exc"]} (PYTHONHASHSEED={s})', None))
                break
        for tbl, s in plan[i].items():
            v = rep[pos]
            pos += 1
            if v == Atom('ok'):
                continue
            feats = runs[s][i]['features']
            what = v[1]
            if what == Atom('perm'):
                out['fails'].append(('perm', f'{short(c)}: returned Feature column {feats} is not a permutation of the {len(c["names"])} features '
                                             f'(PYTHONHASHSEED={s})', None))
            elif what == Atom('ranks'):
                out['fails'].append(('ranks', f'{short(c)}: 3MR_Ranking column {runs[s][i]["ranks"]} is not 1..n in list order', None))
            else:
                k = int(what)
                out['fails'].append(('head' if k == 0 else 'greedy-step', (s, k, [t[0] for t in tbl]), None))
                follow.append((i, len(out['fails']) - 1))
        res.append(out)
    # second round: explanations of non-maximal positions, tie-break observation on tied inputs
    req2, plan2 = [], []
    for i, j in follow:
        s, k, r = res[i]['fails'][j][1]
        req2 += [load_line(cases[i]), line(Atom(PROP), Atom('explain'), r, k)]
        plan2.append(('explain', i, j))
    for i, c in enumerate(cases):
        if res[i]['strict'] or res[i]['fails']:
            continue
        idx = {nm: k for k, nm in enumerate(c['names'])}
        req2.append(load_line(c))
        plan2.append(('load', i, None))
        for s in seeds:
            r = runs[s][i]
            if 'orders' in r:
                req2.append(line(Atom(PROP), Atom('modelord'), [[idx[f] for f in o] for o in r['orders']]))
                plan2.append(('ord', i, s))
    rep2 = run_driver(req2)
    p = 0
    for kind, i, j in plan2:
        c = cases[i]
        if kind == 'explain':
            vals = rep2[p + 1]
            p += 2
            s, k, r = res[i]['fails'][j][1]
            nm = c['names']
            chosen, cv = vals[0]
            best = max(vals[1:], key=lambda t: t[1])
            unit = exact(c, 1)
            crit = 'relevance' if k == 0 else f'objective against the first {k} ranked {[nm[x] for x in r[:k]]}'
            desc = (f'{short(c)}: implementation ranking {[nm[x] for x in r]} (PYTHONHASHSEED={s}) places {nm[chosen]!r} at position {k} with '
                    f'{crit} = {Fraction(cv) / unit} units, but the remaining feature {nm[best[0]]!r} has {Fraction(best[1]) / unit} units')
            res[i]['fails'][j] = (res[i]['fails'][j][0], desc, None)
        elif kind == 'load':
            p += 1
        else:
            got = [int(x) for x in rep2[p]]
            p += 1
            idx = {nm: k for k, nm in enumerate(c['names'])}
            res[i]['tiebreak'].append(got == [idx[f] for f in runs[j][i]['features']])
    if check_exact:
        for i, c in enumerate(cases):
            r = runs[seeds[0]][i]
            if 'exc' not in r and not res[i]['fails'] and not float_exact(c, r['features']):
                raise InfraError(f'generator left the exact-float domain: {short(c)}')
    return res


def restrict(c, keep):
    """the case restricted to the features with indices `keep` (foreign keys kept)"""
    n = len(c['names'])
    new = {old: k for k, old in enumerate(keep)}
    for f in range(len(c.get('foreign', []))):
        new[n + f] = len(keep) + f
    d = dict(c)
    d['names'] = [c['names'][i] for i in keep]
    d['rel'] = [c['rel'][i] for i in keep]
    d['red'] = [[new[a], new[b], m] for a, b, m in c['red'] if a in new and b in new]
    d['rln'] = [[new[a], new[b], m] for a, b, m in c['rln'] if a in new and b in new]
    d.pop('id', None)
    if c.get('prev'):
        d['prev'] = restrict(c['prev'], keep)
    return d


def shrink(srv, c, key, budget=60):
    """greedy shrinking through the persistent worker: drop features / whole dictionaries while the same clause still fails"""
    def fails(x):
        r = judge([x], srv.run([x]), check_exact=False)[0]
        return any(k == key for k, _, _ in r['fails'])
    try:
        if not fails(c):
            return c
        cur = c
        for fld in ('rln', 'red'):
            if cur[fld] and budget > 0:
                budget -= 1
                t = dict(cur)
                t[fld] = []
                if fails(t):
                    cur = t
        changed = True
        while changed and budget > 0:
            changed = False
            for j in range(len(cur['names'])):
                if len(cur['names']) <= 1 or budget <= 0:
                    break
                budget -= 1
                t = restrict(cur, [i for i in range(len(cur['names'])) if i != j])
                if fails(t):
                    cur = t
                    changed = True
                    break
        return cur
    except InfraError:
        raise
    except (KeyError, ValueError, IndexError):      # shrinking is best effort
        return c


def clean(c):
    return {k: v for k, v in c.items() if k != 'id'}


def evaluate(ctx: Ctx, cases, oracle_only=False):
    thorough = ctx.thorough()
    seeds = ['0', '1', '2', '3', '4'] if thorough else ['0', '1', '2']
    runs = run_workers(cases, seeds, chunks=3 if thorough else 2)
    res = judge(cases, runs)
    to_shrink = {}
    for c, r in zip(cases, res):
        n = len(c['names'])
        ctx.evaluations += 1
        ctx.count('n:' + ('1' if n == 1 else '2' if n == 2 else '3-5' if n <= 5 else '6-10' if n <= 10 else '11-20' if n <= 20 else '21-30'))
        ctx.count('strategy:' + c['strategy'])
        ctx.count(f'alpha:{c["alpha"]}')
        ctx.count(f'beta:{c["beta"]}')
        for part in c.get('fam', '').split():
            if part.startswith(('red:', 'rln:', 'rel:')):
                ctx.count(part)
        ctx.count('values:python-int' if c.get('pyint') else 'values:float')
        ctx.count('unique-greedy-ranking' if r['strict'] else 'tied')
        rankings = {tuple(o['features']) for o in r['outs'].values() if 'features' in o}
        if len(rankings) > 1:
            ctx.count('observed:ranking-depends-on-hash-seed')
        for ok in r['tiebreak']:
            ctx.count('observed:tied-run-reproduced-by-first-strict-max-in-set-order' if ok else 'observed:tied-run-other-tie-break')
        by_rel = sorted(range(n), key=lambda i: -c['rel'][i])
        if n >= 3 and (not r['strict'] or r['model'] != by_rel):
            ctx.nontrivial.add(json.dumps([c['names'], c['rel'], c['red'], c['rln'], c['strategy'], c['alpha'], c['beta'], c['scale']]))
        if not oracle_only and r['strict']:
            for s, o in r['outs'].items():
                if 'features' not in o:
                    continue
                ctx.traces += 1
                want = [c['names'][i] for i in r['model']]
                if o['features'] != want:
                    ctx.corr_fail('tie-free-ranking', f'{short(c)}: the greedy ranking is unique; model {want} but implementation '
                                  f'{o["features"]} (PYTHONHASHSEED={s})', clean(c))
                    break
        for key, desc, _ in r['fails']:
            if key not in to_shrink:
                to_shrink[key] = (c, desc)
            else:
                ctx.oracle_fail(key, desc, clean(c))
        ctx.sample({'names': c['names'], 'relevance_multipliers': c['rel'], 'strategy': c['strategy'], 'alpha': c['alpha'], 'beta': c['beta'],
                    'pairs': [len(c['red']), len(c['rln'])], 'model_ranking': [c['names'][i] for i in r['model']], 'unique': r['strict'],
                    'impl_rankings': sorted(map(list, rankings))[:2]})
    # first failure per clause: shrink (in-process), confirm through the worker path, report
    first = []
    srv = Server() if to_shrink else None
    for key, (c, desc) in to_shrink.items():
        try:
            small = clean(shrink(srv, clean(c), key))
        except InfraError:
            small = clean(c)
        if small != clean(c):
            rr = judge([small], srv.run([small]), check_exact=False)[0]
            hit = [d for k, d, _ in rr['fails'] if k == key]
            if hit:
                first.append(Failure_(key, hit[0], clean(small)))
                continue
        first.append(Failure_(key, desc, clean(c)))
    if srv is not None:
        srv.close()
    for f in reversed(first):
        ctx.oracle_failures.insert(0, f)


def Failure_(key, desc, case):
    from vp_common import Failure
    return Failure(key, desc, case, 'oracle')


def evaluate_cli_3mr(ctx: Ctx, specs):
    """the ranking as the user gets it: `python -m outrank --task ranking --heuristic MI-numba-3mr` (fresh process) on a small CSV
    whose feature names sort before AND after the label's; `3mr_ranks.tsv` must list every feature exactly once with ranks 1..n
    in list order and start with a feature of maximal relevance (= maximal score against the label in pairwise_ranks.tsv)."""
    import csv
    import os
    import random
    import shutil
    import subprocess
    import sys
    import tempfile

    from vp_common import REPO
    for spec in specs:
        r = random.Random(f'cli3mr:{spec["seed"]}')
        feats = r.sample(['age', 'city', 'price', 'zone', 'f1', 'null', 'Zip', 'user id'], spec['k'])
        label = spec['label']
        n = 1500
        y = [r.randrange(2) for _ in range(n)]
        cols = {f: [str((yy * r.randrange(j + 2) + r.randrange(3)) % (j + 3)) for yy in y] for j, f in enumerate(feats)}
        names = feats[:]
        names.insert(r.randrange(len(names) + 1), label)
        d = tempfile.mkdtemp(prefix='c17cli_')
        ctx.evaluations += 1
        ctx.count('cli-3mr-ranking')
        try:
            with open(os.path.join(d, 'data.csv'), 'w', newline='') as fh:
                w = csv.writer(fh)
                w.writerow(names)
                for i in range(n):
                    w.writerow([str(y[i]) if c == label else cols[c][i] for c in names])
            out = os.path.join(d, 'out')
            env = dict(os.environ, PYTHONPATH=REPO, PYTHONHASHSEED='0')
            p = subprocess.run([sys.executable, '-m', 'outrank', '--task', 'ranking', '--data_path', d, '--data_source', 'csv-raw', '--heuristic', 'MI-numba-3mr',
                                '--label_column', label, '--subsampling', '1', '--minibatch_size', '2000', '--num_threads', '1',
                                '--include_cardinality_in_feature_names', 'False', '--output_folder', out, '--disable_tqdm', 'True'],
                               cwd=d, env=env, stdout=subprocess.PIPE, stderr=subprocess.STDOUT, timeout=900)
            show = f'CLI 3MR ranking of a {n}-row csv with columns {names} (label {label!r})'
            path = os.path.join(out, '3mr_ranks.tsv')
            if not os.path.exists(path):
                ctx.oracle_fail('cli-3mr-missing', f'{show}: no 3mr_ranks.tsv (exit {p.returncode}): {p.stdout.decode("utf-8", "replace")[-300:]}', {'cli_3mr': spec})
                continue
            with open(path, newline='', encoding='utf-8') as fh:
                recs = list(csv.reader(fh, delimiter='\t'))
            hdr, body = recs[0], recs[1:]
            fi, ri = hdr.index('Feature'), hdr.index('3MR_Ranking')
            listed = [x[fi] for x in body]
            ranks = [int(float(x[ri])) for x in body]
            rel = {}
            with open(os.path.join(out, 'pairwise_ranks.tsv'), newline='', encoding='utf-8') as fh:
                for a, b, sc in list(csv.reader(fh, delimiter='\t'))[1:]:
                    if b == label and a != label:
                        rel[a] = float(sc)
            bad = None
            if sorted(listed) != sorted(feats):
                bad = f'3mr_ranks.tsv lists {listed}; the features are {sorted(feats)}'
            elif ranks != list(range(1, len(feats) + 1)):
                bad = f'ranks {ranks} are not 1..{len(feats)} in list order'
            elif rel and rel.get(listed[0], float("-inf")) < max(rel.values()) - 1e-12:
                bad = f'the list starts with {listed[0]!r} (score against the label {rel.get(listed[0])}), the maximal relevance is {max(rel.values())} ({max(rel, key=rel.get)!r})'
            if bad:
                ctx.oracle_fail('cli-3mr', f'{show}: {bad}', {'cli_3mr': spec})
        finally:
            shutil.rmtree(d, ignore_errors=True)


def cli_3mr_specs(rng, n):
    return [{'seed': rng.randrange(10 ** 9), 'k': rng.choice([3, 4, 5]), 'label': rng.choice(['label', 'label', 'click', 'target'])} for _ in range(n)]


def run(ctx: Ctx):
    n = 5000 if ctx.thorough() else 500
    evaluate(ctx, corpus() + [gen_case(ctx.rng, ctx.thorough()) for _ in range(n)])
    evaluate_cli_3mr(ctx, cli_3mr_specs(ctx.rng, 4 if ctx.thorough() else 1))


def search(ctx: Ctx):
    sub = Ctx(ctx.prop, ctx.tier)
    sub.rng.seed(f'search:{ctx.seed}')
    evaluate(sub, [gen_case(sub.rng, True) for _ in range(2500)], oracle_only=True)
    evaluate_cli_3mr(sub, cli_3mr_specs(sub.rng, 3))
    return sub.oracle_failures


def replay(ctx: Ctx, payload):
    if isinstance(payload['case'], dict) and 'cli_3mr' in payload['case']:
        evaluate_cli_3mr(ctx, [payload['case']['cli_3mr']])
        return
    evaluate(ctx, [payload['case']])
