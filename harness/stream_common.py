"""Shared by corr_C08 / corr_C09: running the real ranking task (in-process with a stand-in pool, or through the CLI in a
sub-process) and observing it from outside (wrapped module attributes, captured logger, files in a temp cwd)."""
from __future__ import annotations

import contextlib
import csv
import io
import logging
import os
import re
import shutil
import subprocess
import sys
import tempfile
import types
from fractions import Fraction

from vp_common import REPO

CLI_DEFAULTS = dict(
    task='ranking', minibatch_size=2 ** 14, output_folder='ranking_outputs', data_source='csv-raw', data_path=None,
    subsampling=1, combination_number_upper_bound=2 ** 15, missing_value_symbols='', heuristic='MI-numba-randomized',
    include_noise_baseline_features='False', include_cardinality_in_feature_names='False', image_format='pdf',
    num_threads=1, label_column='label', max_unique_hist_constraint=30_000, transformers='none',
    rare_value_count_upper_bound=1, feature_set_focus=None, interaction_order=1, reference_model_JSON='',
    target_ranking_only='True', explode_multivalue_features='False', subfeature_mapping='False',
    num_synthetic_features=100, tldr='True', num_synthetic_rows=1000000, generator_type='naive',
    output_synthetic_df_name='test_data_synthetic', disable_tqdm='True', mi_stratified_sampling_ratio=1.0)

CARD_SUFFIX = re.compile(r'-\(\d+; -?\d+\)$')


def make_args(**kw):
    d = dict(CLI_DEFAULTS)
    d.update(kw)
    return types.SimpleNamespace(**d)


# ---------------------------------------------------------------------------------------------
# stand-in pools

class _Res:
    def __init__(self, v):
        self.v = v

    def ready(self):
        return True

    def get(self):
        return self.v


class StandInPool:
    """usable as `with pool as p: r = p.amap(f, xs); r.ready(); r.get()` (no 4 s polling sleep).
    `plan(n, call_index) -> (eval_order, return_order)`: the order in which the n submitted items are evaluated and the
    order in which their results are handed back (both index lists; None = submission order).
    `both`: additionally evaluate f on the swapped pair of every item (records the scorer in both orientations)."""

    def __init__(self, plan=None, both=False, ncpus=2):
        self.plan, self.both = plan, both
        self.calls = []
        self.ncpus = self.nodes = ncpus       # the rest of the pathos mapping API, so that another dispatch style is not an alarm

    def clear(self):
        pass

    def map(self, f, xs):
        """blocking map: results in submission order"""
        xs = list(xs)
        saved, self.plan = self.plan, None          # submission order
        try:
            return self.amap(f, xs).get()
        finally:
            self.plan = saved

    def imap(self, f, xs):
        return iter(self.map(f, xs))

    def uimap(self, f, xs):
        """unordered map: results in the (adversarial) completion order of the plan"""
        return iter(self.amap(f, xs).get())

    def __enter__(self):
        return self

    def __exit__(self, *a):
        return False

    def close(self):
        pass

    def join(self):
        pass

    def amap(self, f, xs):
        xs = list(xs)
        n = len(xs)
        ev, ret = (None, None) if self.plan is None else self.plan(n, len(self.calls) + len(getattr(self, 'other_calls', [])))
        ev = list(range(n)) if ev is None else ev
        ret = list(range(n)) if ret is None else ret
        res = [None] * n
        for i in ev:
            res[i] = f(xs[i])
        rec = {'submitted': xs, 'results': list(res), 'returned_order': list(ret)}
        if self.both and all(isinstance(x, tuple) and len(x) == 2 for x in xs) and all(isinstance(t, tuple) and len(t) == 3 for t in res):
            g = {}
            for (a, b) in dict.fromkeys(xs):
                g[(a, b)] = f((a, b))[2]
                g[(b, a)] = f((b, a))[2]
            rec['g'] = g
        # `calls` are the pair-scoring dispatches (what the checks reason about); anything else the code chooses to run on the
        # pool (e.g. feature construction) is kept apart
        scoring = all(isinstance(x, tuple) and len(x) == 2 for x in xs) and all(isinstance(t, tuple) and len(t) == 3 for t in res)
        if scoring:
            self.calls.append(rec)
        else:
            self.__dict__.setdefault('other_calls', []).append(rec)
        return _Res([res[i] for i in ret])


# ---------------------------------------------------------------------------------------------
# observing one in-process run of the ranking task

def read_rank_tsv(path):
    """rows (FeatureA, FeatureB, Score) of a checkpoint / pairwise_ranks file, in file order"""
    with open(path, newline='') as fh:
        rows = list(csv.reader(fh, delimiter='\t'))
    if not rows:
        return []
    h = rows[0]
    ia, ib, isc = h.index('FeatureA'), h.index('FeatureB'), h.index('Score')
    return [(CARD_SUFFIX.sub('', r[ia]), CARD_SUFFIX.sub('', r[ib]), float(r[isc])) for r in rows[1:]]


class _CapLog:
    def __init__(self):
        self.msgs = []

    def info(self, m, *a):
        self.msgs.append(str(m))

    warning = error = debug = info


def clear_globals():
    from outrank import core_ranking as cr
    cr.GLOBAL_CARDINALITY_STORAGE.clear()
    cr.GLOBAL_COUNTS_STORAGE.clear()
    cr.GLOBAL_RARE_VALUE_STORAGE.clear()
    cr.GLOBAL_PRIOR_COMB_COUNTS.clear()
    cr.IGNORED_VALUES.clear()


class Rec:
    def __init__(self):
        self.batches = []        # per compute_batch_ranking call: {'rows': parsed rows, 'triplets': [(a, b, score)]}
        self.disk_after = []     # checkpoint file content (list of rows, or None) after batch k was fully processed
        self.ckpt_calls = 0
        self.invalid = 0
        self.grouped = None      # rows of the frame returned by estimate_importances_minibatches (None if None)
        self.final = None        # rows of pairwise_ranks.tsv (None if not written)
        self.error = None
        self.pool = None
        self.frame_cols = []     # per mixed_rank_graph call: the column order of the frame that is ranked
        self.singles = None      # `summary=True`: rows [name, score | nan] of feature_singles.tsv (None if not written)
        self.summary_error = None   # `summary=True`: the exception outrank_task_result_summary raised


def read_singles_tsv(path):
    """rows [Feature, score] of feature_singles.tsv in file order; an empty score cell (pandas' NaN) becomes nan"""
    with open(path, newline='', encoding='utf-8') as fh:
        recs = list(csv.reader(fh, delimiter='\t', quotechar='"'))
    return [[r[0], float(r[1]) if r[1] != '' else float('nan')] for r in recs[1:] if len(r) == 2]


def run_inprocess(data_text: str, pool=None, summary=False, **argkw) -> Rec:
    """the real `outrank_task_conduct_ranking` in a temp cwd (the checkpoint goes to the cwd), wrapped from outside.
    `summary`: afterwards – as `--task all` does – the real `outrank_task_result_summary` with the SAME args on the output
    folder the ranking task wrote (only if pairwise_ranks.tsv exists); feature_singles.tsv is read into `rec.singles`."""
    from outrank import core_ranking as cr
    from outrank import task_ranking as tr
    rec = Rec()
    pool = pool if pool is not None else StandInPool()
    rec.pool = pool
    old_cwd = os.getcwd()
    d = tempfile.mkdtemp(prefix='verif_stream_')
    orig_cbr, orig_ck, orig_est, orig_pool = cr.compute_batch_ranking, cr.checkpoint_importances_df, tr.estimate_importances_minibatches, getattr(tr, 'Pool', None)
    orig_mrg = cr.mixed_rank_graph

    def mrg(input_dataframe, *a, **k):
        rec.frame_cols.append([str(c) for c in input_dataframe.columns])
        return orig_mrg(input_dataframe, *a, **k)
    ck = os.path.join(d, 'ranking_checkpoint_tmp.tsv')
    cap = _CapLog()

    def disk():
        return read_rank_tsv(ck) if os.path.exists(ck) else None

    def cbr(line_tmp_storage, *a, **k):
        if rec.batches:
            rec.disk_after.append(disk())           # state left by the previous batch
        rows = [list(r) for r in line_tmp_storage]
        out = orig_cbr(line_tmp_storage, *a, **k)
        rec.batches.append({'rows': rows, 'triplets': [(t[0], t[1], float(t[2])) for t in out[0].triplet_scores]})
        return out

    def ckw(*a, **k):                   # observed only; the signature is the implementation's business
        rec.ckpt_calls += 1
        return orig_ck(*a, **k)

    coldesc = argkw.pop('_coldesc', 'list')

    def est(**kw):
        kw['logger'] = cap
        if coldesc == 'tuple' and isinstance(kw.get('column_descriptions'), list):
            # a library caller holding the column names in a tuple (the task itself passes the list read from the header)
            kw['column_descriptions'] = tuple(kw['column_descriptions'])
        out = orig_est(**kw)
        if rec.batches:
            rec.disk_after.append(disk())
        g = out[1]
        rec.grouped = None if g is None else [(str(a), str(b), float(s)) for a, b, s in zip(g['FeatureA'], g['FeatureB'], g['Score'])]
        return out

    logging.disable(logging.CRITICAL)
    try:
        with open(os.path.join(d, 'data.csv'), 'w', newline='') as fh:
            fh.write(data_text)
        os.chdir(d)
        clear_globals()
        cr.compute_batch_ranking, cr.checkpoint_importances_df, tr.estimate_importances_minibatches = cbr, ckw, est
        cr.mixed_rank_graph = mrg
        tr.Pool = lambda n: pool
        args = make_args(data_path=d, output_folder=os.path.join(d, 'out'), **argkw)
        try:
            tr.outrank_task_conduct_ranking(args)
        except SystemExit:
            pass
        except Exception as e:          # noqa: BLE001 – a crash of the task is an observation
            import traceback
            rec.error = f'{type(e).__name__}: {e}'
            rec.trace = traceback.format_exc()[-1500:]
        for m in cap.msgs:
            mm = re.match(r'Detected (\d+) invalid lines', m)
            if mm:
                rec.invalid = int(mm.group(1))
        p = os.path.join(d, 'out', 'pairwise_ranks.tsv')
        if os.path.exists(p):
            rec.final = read_rank_tsv(p)
            if summary and rec.error is None:
                from outrank import task_summary as ts
                try:
                    with contextlib.redirect_stdout(io.StringIO()):       # `tldr` prints the head of the frame
                        ts.outrank_task_result_summary(args)
                except Exception as e:      # noqa: BLE001 – a crash of the task is an observation
                    rec.summary_error = f'{type(e).__name__}: {e}'
                ps = os.path.join(d, 'out', 'feature_singles.tsv')
                if os.path.exists(ps):
                    rec.singles = read_singles_tsv(ps)
    finally:
        cr.compute_batch_ranking, cr.checkpoint_importances_df, tr.estimate_importances_minibatches = orig_cbr, orig_ck, orig_est
        cr.mixed_rank_graph = orig_mrg
        if orig_pool is not None:
            tr.Pool = orig_pool
        os.chdir(old_cwd)
        logging.disable(logging.NOTSET)
        clear_globals()
        shutil.rmtree(d, ignore_errors=True)
    return rec


# ---------------------------------------------------------------------------------------------
# the CLI in a fresh process

HASH_SHIM = r"""
import runpy, sys
import outrank.core_utils as cu
_orig = cu.internal_hash
def _ih(x):
    return _orig(x if isinstance(x, (str, bytes)) else str(x))
cu.internal_hash = _ih
import outrank.core_ranking as cr
cr.internal_hash = _ih
import outrank.feature_transformations.ranking_transformers as rt
rt.internal_hash = _ih
sys.argv = ['outrank'] + sys.argv[1:]
runpy.run_module('outrank', run_name='__main__')
"""


def cli_run(data_text: str, hashseed='0', timeout=600, shim_hash=False, **argkw):
    """`python -m outrank --task ranking …` in a fresh process, cwd = a temp dir; returns (rows of pairwise_ranks.tsv | None, log tail).
    `shim_hash`: start the same CLI with `internal_hash` wrapped from outside so that it accepts non-str values (the noise-control
    configuration cannot run otherwise) – nothing else is touched."""
    argkw = {k: v for k, v in argkw.items() if not k.startswith('_')}      # in-process-only switches
    d = tempfile.mkdtemp(prefix='verif_cli_')
    try:
        with open(os.path.join(d, 'data.csv'), 'w', newline='') as fh:
            fh.write(data_text)
        kw = dict(task='ranking', data_source='csv-raw', disable_tqdm='True', include_cardinality_in_feature_names='False',
                  missing_value_symbols='')
        kw.update(argkw)
        kw['data_path'] = d
        kw['output_folder'] = os.path.join(d, 'out')
        cmd = [sys.executable, '-c', HASH_SHIM] if shim_hash else [sys.executable, '-m', 'outrank']
        for k, v in kw.items():
            if v is None or (k == 'missing_value_symbols' and v == ''):
                continue
            cmd += [f'--{k}', str(v)]
        env = dict(os.environ)
        env['PYTHONPATH'] = REPO
        env.pop('PYTHONHASHSEED', None)
        if hashseed != 'random':
            env['PYTHONHASHSEED'] = str(hashseed)
        else:
            env['PYTHONHASHSEED'] = 'random'
        p = subprocess.run(cmd, cwd=d, env=env, stdout=subprocess.PIPE, stderr=subprocess.STDOUT, timeout=timeout)
        out = os.path.join(d, 'out', 'pairwise_ranks.tsv')
        rows = read_rank_tsv(out) if os.path.exists(out) else None
        return rows, p.stdout.decode('utf-8', 'replace')[-1500:]
    finally:
        shutil.rmtree(d, ignore_errors=True)


# ---------------------------------------------------------------------------------------------
# wire helpers

def name_ranks(*row_lists):
    names = sorted({n for rows in row_lists for r in (rows or []) for n in r[:2]})
    return {n: i for i, n in enumerate(names)}, names


def wire_rows(rows, rk):
    return [[rk[a], rk[b], Fraction(s)] for a, b, s in rows]


def table_of(reply, names):
    """driver table → {(A, B): Fraction}"""
    return {(names[a], names[b]): Fraction(s) for a, b, s in reply}


def same_float(model_exact: Fraction, impl: float) -> bool:
    """the implementation's float equals the correctly rounded exact value"""
    return float(model_exact) == impl
