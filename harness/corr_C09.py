"""C09 – results independent of worker count and scheduling, and reproducible.
PROVED (Props/C09.lean): given purity (each result carries its names; the score is a function of pair and batch) no shuffle,
worker partition or completion order can change the table; column (set-iteration) order cannot either for symmetric scorers,
in target-only mode, and – after the repair – in general.
Tie, part 1 (in-process, adversarial schedules): the real ranking task with stand-in pools that evaluate and hand back the
results in arbitrary orders, and with re-seeded shuffles; every table must equal the baseline and the Lean model
(`Stream.table`, `Stream.colRows`) fed with the recorded per-pair scores.
Tie, part 2 (SAMPLED real interleavings): the real CLI in fresh processes, pool sizes x PYTHONHASHSEED x repetitions on fixed
generated data; `pairwise_ranks.tsv` must be identical up to the order of tie rows."""
from __future__ import annotations

import hashlib
import json
import os
import random
import shutil
import subprocess
import sys
import tempfile
from concurrent.futures import ThreadPoolExecutor
from fractions import Fraction

import stream_common as sc
from vp_common import REPO, Atom, Ctx, line, run_driver

PROP = 'C09'
RULE = ('part 1: generated CSV files (3-5 columns, label anywhere, 1-3 batches), modes target-only / pairwise, focus sets, interaction '
        'order 2, multi-value expansion, small caps, a duplicated (aliased) column in pairwise scope, a sub-sampled estimator with an identifier column; each ranked in-process under the baseline pool and under adversarial schedules '
        '(random evaluation order, random hand-back order, re-seeded shuffle). part 2: the CLI in fresh processes on fixed generated data '
        '(2 batches): configurations pairwise+focus, multi-value, interaction order 2, default, sub-sampled estimator, capped selection, aliased column, noise controls (plain, and with internal_hash wrapped from outside because the plain configuration cannot run); --num_threads in {1,2,4} '
        '(thorough 1..16), PYTHONHASHSEED in {0,1,random}, repeated. Non-trivial = a comparison between two runs that differ in schedule / '
        'pool size / hash seed on a table with >= 6 rows; distinct = distinct (configuration, data, schedule pair).')
ASSUMPTIONS = ['purity of scoring (same pair + same batch rows => same float) is what the theorem needs; it is observed (every comparison is bit-exact), not proved about CPython/numba',
               'the OS decides the real interleavings of the worker processes: they are SAMPLED (pool sizes x repetitions), not enumerated',
               'a hand-back order different from the submission order goes beyond pathos amap (which is order-preserving); the code must not depend on it because results carry their names (property: "every completion order")',
               'combination cap >= number of combinations for the column-order model (with a smaller cap the selection depends on list order: C07)',
               'noise controls draw from numpy\'s global RNG, seeded at import (np.random.seed(123) in ranking_mi_numba / ranking_cov_alignment / generator_naive): reproducible across fresh runs']


# ---------------------------------------------------------------------------------------------
# data

def gen_data(rng: random.Random, nrows, feats, label_pos, multival=None, alias=None, uid=None):
    """alias = (copy, source): column `copy` repeats column `source` cell by cell (duplicated / aliased columns are common in
    real feeds; two pairs with the same contents in opposite orientations must still be scored independently)"""
    cols = list(feats)
    cols.insert(min(label_pos, len(cols)), 'label')
    lines = []
    for rowno in range(nrows):
        y = rng.randrange(2)
        base = rng.randrange(6)
        vals = []
        for j, c in enumerate(cols):
            if c == 'label':
                vals.append(str(y))
            elif c == multival:
                vals.append('-'.join(sorted(rng.sample('abcde', rng.randrange(1, 4)))))
            else:
                k = [6, 4, 30, 3, 9][j % 5]
                vals.append(str((base * (j % 2) + y * rng.randrange(3) + rng.randrange(k)) % k))
        if alias:
            vals[cols.index(alias[0])] = vals[cols.index(alias[1])]
        if uid:
            vals[cols.index(uid)] = f'u{rowno}'        # identifier column: every row its own value
        lines.append(','.join(vals))
    return cols, ','.join(cols) + '\n' + '\n'.join(lines) + '\n'


def gen_case(rng: random.Random):
    nf = rng.choice([2, 3, 3, 4])
    feats = [f'f{i}' for i in range(nf)]
    B = rng.choice([150, 300, 500])
    nb = rng.choice([1, 2, 2, 3])
    mode = rng.choice(['plain', 'plain', 'focus', 'focus', 'inter2', 'multival', 'smallcap', 'alias', 'alias', 'subuid', 'subuid'])
    c = {'dseed': rng.getrandbits(48), 'feats': feats, 'label_pos': rng.randrange(nf + 1), 'B': B, 'rows': nb * B + rng.choice([0, 0, 7]),
         'target_only': rng.random() < 0.4, 'mode': mode, 'sseed': rng.getrandbits(32)}
    if mode == 'focus':
        k = rng.randint(2, nf)
        c['focus'] = rng.sample(feats, k)
    if mode == 'multival':
        c['multival'] = rng.choice(feats)
    if mode == 'smallcap':
        c['cap'] = rng.choice([1, 2, 3])
    if mode == 'subuid':
        # sub-sampled estimator + an identifier column (more distinct values than floor(r*n): the sampler's keep-all branch) in
        # pairwise scope: per-call state written back into the shared arguments would leak into the pairs scored afterwards
        c['uid'] = rng.choice(feats)
        c['ratio'] = rng.choice([0.5, 0.25])
        c['target_only'] = False
    if mode == 'alias':
        # a duplicated column, pairwise scope, asymmetric (default) heuristic: (a, b) and (b, a_copy) have the same two contents
        # in opposite orientations
        c['alias'] = rng.sample(feats, 2)
        c['target_only'] = False
    return c


def case_args(c):
    kw = dict(minibatch_size=c['B'], subsampling=1, heuristic=c.get('heuristic', 'MI-numba-randomized'),
              target_ranking_only='True' if c['target_only'] else 'False', combination_number_upper_bound=c.get('cap', 2048))
    if c.get('focus'):
        kw['feature_set_focus'] = ','.join(c['focus'])
    if c['mode'] == 'inter2':
        kw['interaction_order'] = 2
    if c.get('multival'):
        kw['explode_multivalue_features'] = c['multival']
    if c.get('ratio'):
        kw['mi_stratified_sampling_ratio'] = c['ratio']
    return kw


def case_data(c):
    return gen_data(random.Random(c['dseed']), c['rows'], c['feats'], c['label_pos'], c.get('multival'), c.get('alias'), c.get('uid'))


# ---------------------------------------------------------------------------------------------
# part 1: adversarial schedules in-process

def plan_of(kind, seed):
    r = random.Random(seed)

    def plan(n, call):
        ev = list(range(n))
        ret = list(range(n))
        if kind in ('eval', 'both'):
            r.shuffle(ev)
        if kind in ('return', 'both'):
            r.shuffle(ret)
        if kind == 'reverse':
            ev.reverse()
            ret.reverse()
        return ev, ret
    return plan


SCHEDS = [('eval', 'completion-order'), ('return', 'completion-order'), ('both', 'completion-order'), ('reverse', 'completion-order'),
          ('reseed', 'shuffle')]


def as_map(rows):
    return None if rows is None else {(a, b): s for a, b, s in rows}


def run_sched(c, text, kind, seed):
    if kind == 'reseed':
        random.seed(seed)            # the module-level `random` state drives random.shuffle(combinations)
        pool = sc.StandInPool()
    else:
        pool = sc.StandInPool(plan=plan_of(kind, seed))
    return sc.run_inprocess(text, pool=pool, **case_args(c))


def part1(ctx: Ctx, cases, oracle_only=False):
    req, metas = [], []
    for c in cases:
        cols, text = case_data(c)
        random.seed(123, version=2)
        base = sc.run_inprocess(text, pool=sc.StandInPool(both=True), **case_args(c))
        ctx.evaluations += 1
        ctx.count('p1-mode:' + c['mode'] + ('/target' if c['target_only'] else '/pairwise'))
        tag = f"mode={c['mode']} target_only={c['target_only']} cols={cols} focus={c.get('focus')} rows={c['rows']} B={c['B']}"
        if base.error or base.grouped is None:
            ctx.oracle_fail('crash', f'{tag}: the ranking task failed in-process: {base.error}', c)
            continue
        T0 = as_map(base.grouped)
        kinds = ctx.rng.sample(SCHEDS, 3)
        runs = []
        for kind, key in kinds:
            r = run_sched(c, text, kind, c['sseed'])
            runs.append((kind, key, r))
            ctx.evaluations += 1
            ctx.count('p1-schedule:' + kind)
            if len(T0) >= 6:
                ctx.nontrivial.add((c['dseed'], c['mode'], kind))
            if r.error or as_map(r.grouped) != T0 or sorted(r.final or []) != sorted(base.final or []):
                diff = None if r.grouped is None else next((k for k in T0 if as_map(r.grouped).get(k) != T0[k]), None)
                desc = (f'{tag}: with schedule "{kind}" (seed {c["sseed"]}) the table differs from the baseline run' +
                        (f': pair {diff} scored {as_map(r.grouped).get(diff)} instead of {T0[diff]}' if diff else f' ({r.error})'))
                if key == 'shuffle' and not oracle_only:
                    ctx.corr_fail('shuffle', desc, {**c, 'sched': kind})
                elif key != 'shuffle':
                    ctx.oracle_fail(key, desc, {**c, 'sched': kind})
        if oracle_only:
            continue
        # the model: Stream.table on the recorded raw results of every run, Stream.colRows on the recorded orientation scores
        for kind, _, r in [('baseline', None, base)] + runs:
            if r.error or r.grouped is None:
                continue
            rk, names = sc.name_ranks(r.grouped, *[[t for t in call['results']] for call in r.pool.calls])
            bs = [[[rk[a], rk[b], Fraction(float(s))] for a, b, s in call['results']] for call in r.pool.calls]
            perms = [call['returned_order'] for call in r.pool.calls]
            req.append(line(Atom(PROP), Atom('table'), bs, perms))
            metas.append(('table', c, kind, names, r.grouped, tag))
        if c['mode'] != 'smallcap' and base.frame_cols:
            fc = base.frame_cols[0]
            if all(f == fc for f in base.frame_cols):
                allnames = sorted(set(fc) | {n for g in base.grouped for n in g[:2]})
                rk = {n: i for i, n in enumerate(allnames)}
                gt = [[[rk[a], rk[b], Fraction(float(s))] for (a, b), s in call['g'].items()] for call in base.pool.calls]
                req.append(line(Atom(PROP), Atom('coltable'), 1 if c['target_only'] else 0, rk['label'], [rk[x] for x in fc], gt))
                metas.append(('coltable', c, 'baseline', allnames, base.grouped, tag + f' frame columns={fc}'))
            if c['mode'] in ('plain', 'focus'):
                want = [x for x in cols if (not c.get('focus')) or x in c['focus'] or x == 'label']
                if fc != want:
                    ctx.corr_fail('focus-order', f'{tag}: ranked frame has columns {fc}, file order would be {want}', c)
    if req:
        rep = run_driver(req)
        for (op, c, kind, names, grouped, tag), m in zip(metas, rep):
            ctx.traces += 1
            mm = {(names[a], names[b]): Fraction(s) for a, b, s in m}
            im = as_map(grouped)
            if set(mm) != set(im) or any(not sc.same_float(mm[k], im[k]) for k in im):
                bad = next((k for k in im if k not in mm or not sc.same_float(mm[k], im[k])), None)
                ctx.corr_fail('model-' + op, f'{tag} [{kind}]: model {op} differs from the implementation, e.g. pair {bad}: impl {im.get(bad)} model {float(mm[bad]) if bad in mm else None}', c)
    random.seed(123, version=2)


# ---------------------------------------------------------------------------------------------
# part 2: the CLI in fresh processes

def cli_configs(rng: random.Random, thorough):
    feats = ['f0', 'f1', 'f2', 'f3']
    cfgs = []

    def data(multival=None, rows=2200, alias=None, uid=None):
        return gen_data(random.Random(rng.getrandbits(48)), rows, feats, rng.randrange(5), multival, alias, uid)[1]
    cfgs.append({'name': 'focus-pairwise', 'data': data(), 'args': dict(feature_set_focus='f0,f1,f2,f3', target_ranking_only='False')})
    cfgs.append({'name': 'multivalue-pairwise', 'data': data('f2'), 'args': dict(explode_multivalue_features='f2', target_ranking_only='False')})
    cfgs.append({'name': 'interaction2', 'data': data(), 'args': dict(interaction_order=2, target_ranking_only='True')})
    cfgs.append({'name': 'default-pairwise', 'data': data(), 'args': dict(target_ranking_only='False')})
    # sub-sampled estimator (anything random inside the scorer would make scores depend on which worker took a pair)
    cfgs.append({'name': 'subsampled-mi-pairwise', 'data': data(), 'args': dict(target_ranking_only='False', mi_stratified_sampling_ratio=0.5)})
    # the same with an identifier column (keep-all branch of the sampler for pairs conditioned on it)
    cfgs.append({'name': 'subsampled-uid-pairwise', 'data': data(uid='f2'), 'args': dict(target_ranking_only='False', mi_stratified_sampling_ratio=0.5)})
    # more candidate pairs than the per-batch cap (the capped selection must not depend on hash seeds / schedules)
    cfgs.append({'name': 'capped-pairwise', 'data': data(), 'args': dict(target_ranking_only='False', combination_number_upper_bound=6)})
    cfgs.append({'name': 'capped-interaction2', 'data': data(), 'args': dict(interaction_order=2, target_ranking_only='True', combination_number_upper_bound=4)})
    # a duplicated column: the same two contents occur in both orientations among the pairs (content-keyed caches, per-worker state)
    cfgs.append({'name': 'aliased-column-pairwise', 'data': data(alias=('f3', 'f1')), 'args': dict(target_ranking_only='False')})
    cfgs.append({'name': 'noise-controls', 'data': data(), 'args': dict(include_noise_baseline_features='True', target_ranking_only='True')})
    cfgs.append({'name': 'noise-controls-shimmed', 'data': cfgs[-1]['data'], 'args': dict(cfgs[-1]['args']), 'shim': True})
    for c in cfgs:
        c['args'].update(minibatch_size=1100, subsampling=1, heuristic='MI-numba-randomized')
    return cfgs


def cli_matrix(name, thorough):
    if thorough:
        m = [(t, '0') for t in range(1, 17)] + [(1, '0'), (4, '1'), (8, 'random'), (16, 'random'), (2, 'random'), (3, '2')]
        return m if name in ('focus-pairwise', 'default-pairwise') else [(1, '0'), (1, '0'), (2, '0'), (4, '1'), (7, 'random'), (16, 'random'), (2, 'random')]
    if name == 'noise-controls':
        return [(1, '0'), (2, 'random')]
    if name == 'noise-controls-shimmed':
        return [(1, '0'), (1, '0'), (2, 'random'), (4, '1')]
    return [(1, '0'), (1, '0'), (2, '0'), (4, '1'), (2, 'random')]


def digest(rows):
    return hashlib.md5(repr(sorted(rows)).encode()).hexdigest()[:12]


NOISE_PROBE = r'''
import sys, hashlib
import pandas as pd
import outrank.task_ranking
from outrank import core_ranking as cr
import types
df = pd.DataFrame({'label': [str(i % 2) for i in range(300)], 'f0': [str(i % 7) for i in range(300)]})
args = types.SimpleNamespace(label_column='label')
out = []
for _ in range(2):
    f = cr.include_noisy_features(df, None, args)
    out.append(hashlib.md5(f.to_csv().encode()).hexdigest())
print('DIGEST', ' '.join(out))
'''


def noise_probe(hashseed):
    env = dict(os.environ)
    env['PYTHONPATH'] = REPO
    env['PYTHONHASHSEED'] = hashseed
    p = subprocess.run([sys.executable, '-c', NOISE_PROBE], env=env, stdout=subprocess.PIPE, stderr=subprocess.STDOUT, timeout=600)
    out = p.stdout.decode('utf-8', 'replace')
    for ln in out.splitlines():
        if ln.startswith('DIGEST'):
            return ln
    return 'ERROR ' + out[-300:]


SESSION_PROBE = r'''
import json, sys, random
sys.path.insert(0, sys.argv[1])
import pandas as pd
import stream_common as sc
from outrank import core_ranking as cr
from pathos.multiprocessing import ProcessingPool
spec = json.loads(sys.argv[2])
r = random.Random(spec['seed'])
n = spec['rows']
lab = [str(r.randrange(2)) for _ in range(n)]
df = pd.DataFrame({'f0': [str(r.randrange(5)) for _ in range(n)], 'label': lab, 'f1': [str((int(l) + r.randrange(3)) % 4) for l in lab],
                   'f2': [str(r.randrange(9)) for _ in range(n)], 'f3': [str(r.randrange(3)) for _ in range(n)]})
class PB:
    def set_description(self, *a, **k): pass
    def update(self, *a, **k): pass
out = []
for kw, ncpus in spec['calls']:
    args = sc.make_args(**kw)
    random.seed(7)
    cr.GLOBAL_PRIOR_COMB_COUNTS.clear()
    pool = ProcessingPool(ncpus)
    res = cr.mixed_rank_graph(df, args, pool, PB())
    out.append(sorted([a, b, float(s)] for a, b, s in res.triplet_scores))
print('SESSION', json.dumps(out))
'''


def session_probe(spec):
    """a LIBRARY session with real pathos pools in one fresh process: mixed_rank_graph called several times with the given
    (arguments, pool size); returns the sorted triplets of every call"""
    env = dict(os.environ)
    env['PYTHONPATH'] = REPO
    env['PYTHONHASHSEED'] = '0'
    p = subprocess.run([sys.executable, '-c', SESSION_PROBE, os.path.dirname(os.path.abspath(__file__)), json.dumps(spec)], env=env,
                       stdout=subprocess.PIPE, stderr=subprocess.STDOUT, timeout=900)
    out = p.stdout.decode('utf-8', 'replace')
    for ln in out.splitlines():
        if ln.startswith('SESSION '):
            return json.loads(ln[8:])
    return 'ERROR ' + out[-400:]


def session_specs(rng):
    base = dict(heuristic='MI-numba-randomized', target_ranking_only='False', label_column='label')
    a = dict(base, mi_stratified_sampling_ratio=1.0)
    b = dict(base, mi_stratified_sampling_ratio=rng.choice([0.5, 0.25]))
    c = dict(base, heuristic='MI-numba-3mr', mi_stratified_sampling_ratio=b['mi_stratified_sampling_ratio'])
    seed, rows = rng.randrange(10 ** 6), 1500
    # the judged calls are the LAST TWO of each session: identical input and arguments, pool sizes 1 and 2; the earlier calls
    # (other arguments) warm up the size-1 pool's cached worker.  The reference is the same pair of calls in a session of its own.
    return [{'seed': seed, 'rows': rows, 'calls': [[a, 1], [b, 1], [b, 2]]},
            {'seed': seed, 'rows': rows, 'calls': [[b, 1], [b, 2]]},
            {'seed': seed, 'rows': rows, 'calls': [[b, 2], [c, 1], [c, 2]]},
            {'seed': seed, 'rows': rows, 'calls': [[c, 1], [c, 2]]}]


def judge_sessions(ctx: Ctx, specs, results):
    for k in (0, 2):
        warm, fresh = results[k], results[k + 1]
        ctx.evaluations += 1
        ctx.count('library-session(real pathos pools)')
        case = {'session': [specs[k], specs[k + 1]]}
        if isinstance(warm, str) or isinstance(fresh, str):
            ctx.notes.append(f'session probe could not run: {str(warm)[:200]} / {str(fresh)[:200]}')
            continue
        ctx.traces += 1
        args_desc = {kk: v for kk, v in specs[k]['calls'][-1][0].items() if kk in ('heuristic', 'mi_stratified_sampling_ratio', 'target_ranking_only')}
        one, two = warm[-2], warm[-1]
        if one != two:
            d = next((x, y) for x, y in zip(one, two) if x != y)
            ctx.oracle_fail('pool-size:library-session', f'mixed_rank_graph on one {specs[k]["rows"]}-row frame with {args_desc}, called twice in one process after '
                            f'{len(specs[k]["calls"]) - 2} earlier call(s) with other arguments: ProcessingPool(1) gives {d[0]}, ProcessingPool(2) gives {d[1]}', case)
        elif [one, two] != fresh[-2:]:
            d = next((x, y) for x, y in zip(one, fresh[-2]) if x != y)
            ctx.oracle_fail('fresh-run:library-session', f'mixed_rank_graph with {args_desc}: after earlier calls with other arguments in the same process the scores are '
                            f'{d[0]}, in a process of its own {d[1]}', case)


def judge_cli(ctx: Ctx, cfg, matrix, results):
    """results[i] = (rows|None, log) of matrix[i]"""
    name = cfg['name']
    case = {'cli': name, 'args': cfg['args'], 'data_md5': hashlib.md5(cfg['data'].encode()).hexdigest(), 'data': cfg['data'], 'matrix': matrix}
    for (t, hs), (rows, log) in zip(matrix, results):
        ctx.evaluations += 1
        ctx.count(f'p2-{name}')
        ctx.count(f'p2-threads={t}')
        ctx.count(f'p2-hashseed={hs}')
    failed = [(m, log) for m, (rows, log) in zip(matrix, results) if rows is None]
    if failed:
        if len(failed) == len(matrix) and name == 'noise-controls' and 'internal_hash' in failed[0][1]:
            # the noise columns are floats/ints and compute_cardinalities hashes them with xxhash, which only takes str/bytes:
            # the configuration cannot run at all (not a C09 matter: no scores are written); reproducibility of the noise
            # columns themselves is then checked directly in fresh processes
            ctx.count('p2-noise-config-cannot-run(internal_hash of non-str)')
            ctx.notes.append('--include_noise_baseline_features True crashes in compute_cardinalities -> internal_hash(<float>) '
                             '(TypeError) on every input; the configuration is run with internal_hash wrapped from outside (str() of non-str '
                             'values) instead, and the noise columns are probed directly in fresh processes')
            return
        (t, hs), log = failed[0]
        ctx.oracle_fail(f'cli-no-output:{name}', f'CLI configuration {name} {cfg["args"]} with --num_threads {t}, PYTHONHASHSEED={hs} wrote no '
                        f'pairwise_ranks.tsv while other runs did; log tail: {log[-300:]}', case)
        return
    ref_rows = results[0][0]
    ref = digest(ref_rows)
    for i, ((t, hs), (rows, _)) in enumerate(zip(matrix, results)):
        if i == 0:
            continue
        ctx.traces += 1
        if len(ref_rows) >= 6:
            ctx.nontrivial.add((name, case['data_md5'], matrix[0], (t, hs), i))
        if digest(rows) != ref:
            t0, hs0 = matrix[0]
            what = 'fresh-run' if (t, hs) == (t0, hs0) else ('pool-size' if hs == hs0 else ('hashseed' if t == t0 else 'pool-size-or-hashseed'))
            # attribute: if some run with the reference hash seed and another pool size agrees, the pool size is not the cause
            same_hs_ok = all(digest(r[0]) == ref for (tt, hh), r in zip(matrix, results) if hh == hs0)
            if what == 'pool-size-or-hashseed':
                what = 'hashseed' if same_hs_ok else 'pool-size'
            a, b = as_map(ref_rows), as_map(rows)
            k = next((k for k in a if b.get(k) != a[k]), None)
            ctx.oracle_fail(f'{what}:{name}', f'CLI configuration {name} {cfg["args"]}: pairwise_ranks.tsv of (--num_threads {t}, PYTHONHASHSEED={hs}) differs from '
                            f'(--num_threads {t0}, PYTHONHASHSEED={hs0}) on the same {len(cfg["data"].splitlines()) - 1}-row file, e.g. pair {k}: '
                            f'{b.get(k)} vs {a.get(k)}', {**case, 'matrix': [matrix[0], (t, hs)]})
            return


def same_folder_probe(kind, seed, repeats=3):
    """the SAME command `repeats` times in fresh processes on the SAME data folder, cwd and output folder (cli_run gives every run a new
    folder, so state a run leaves behind in the data folder or the cwd - derived dumps, checkpoints - is invisible there).
    Returns [rows | None per run], log tail"""
    r = random.Random(seed)
    n = 2600
    lab = [r.randrange(2) for _ in range(n)]
    cols = ['f0', 'f1', 'f2', 'label']
    rows = [[str(r.randrange(6)), str((lab[i] + r.randrange(3)) % 4), str(r.randrange(3) if i < n // 2 else r.randrange(9)), str(lab[i])] for i in range(n)]
    d = tempfile.mkdtemp(prefix='verif_c09same_')
    try:
        if kind == 'ob-raw-dump':
            os.makedirs(os.path.join(d, 'data', 'raw_data', '0_header'))
            with open(os.path.join(d, 'data', 'raw_data', '0_header', 'header.csv'), 'w') as fh:
                fh.write('\t'.join(cols) + '\n')
            for k in range(2):
                os.makedirs(os.path.join(d, 'data', 'raw_data', '1_train', f'part-{k}'))
                with open(os.path.join(d, 'data', 'raw_data', '1_train', f'part-{k}', 'data.tsv'), 'w') as fh:
                    fh.write('\t'.join(cols) + '\n')                    # every part's first line is taken as its header by the loader
                    for row in rows[k * (n // 2):(k + 1) * (n // 2)]:
                        fh.write('\t'.join(row) + '\n')
        else:
            os.makedirs(os.path.join(d, 'data'))
            with open(os.path.join(d, 'data', 'data.csv'), 'w') as fh:
                fh.write(','.join(cols) + '\n')
                for row in rows:
                    fh.write(','.join(row) + '\n')
        cmd = [sys.executable, '-m', 'outrank', '--task', 'ranking', '--data_path', os.path.join(d, 'data'), '--data_source', kind,
               '--heuristic', 'MI-numba-randomized', '--subsampling', '1', '--minibatch_size', '1100', '--num_threads', '2',
               '--include_cardinality_in_feature_names', 'False', '--disable_tqdm', 'True', '--output_folder', 'out', '--target_ranking_only', 'False']
        env = dict(os.environ)
        env['PYTHONPATH'] = REPO
        env['PYTHONHASHSEED'] = '0'
        outs, log = [], ''
        for _ in range(repeats):
            pr = subprocess.run(cmd, cwd=d, env=env, stdout=subprocess.PIPE, stderr=subprocess.STDOUT, timeout=900)
            log = pr.stdout.decode('utf-8', 'replace')[-600:]
            f = os.path.join(d, 'out', 'pairwise_ranks.tsv')
            outs.append(sc.read_rank_tsv(f) if os.path.exists(f) else None)
            if os.path.exists(f):
                os.remove(f)                                              # a run that writes nothing must not inherit the previous file
        return outs, log
    finally:
        shutil.rmtree(d, ignore_errors=True)


def judge_same_folder(ctx: Ctx, kind, seed, res):
    outs, log = res
    ctx.evaluations += len(outs)
    ctx.count(f'p2-same-folder:{kind}', len(outs))
    case = {'same_folder': kind, 'seed': seed}
    if all(o is None for o in outs):
        ctx.notes.append(f'same-folder probe for --data_source {kind} wrote no pairwise_ranks.tsv in any run (not judged); log tail: {log[-200:]}')
        ctx.count(f'p2-same-folder-cannot-run:{kind}')
        return
    for i, o in enumerate(outs[1:], 2):
        ctx.traces += 1
        if outs[0] is not None and len(outs[0]) >= 6:
            ctx.nontrivial.add(('same-folder', kind, seed, i))
        if o is None or outs[0] is None or digest(o) != digest(outs[0]):
            a, b = as_map(outs[0] or []), as_map(o or [])
            k = next((k for k in a if b.get(k) != a[k]), None)
            ctx.oracle_fail(f'fresh-run-same-folder:{kind}', f'the same ranking command (--data_source {kind}, 2600 rows, --minibatch_size 1100, --num_threads 2) run {len(outs)} times '
                            f'in fresh processes on the SAME data folder and cwd: pairwise_ranks.tsv of run {i} differs from run 1, e.g. pair {k}: '
                            f'{b.get(k)} vs {a.get(k)} ({len(o or [])} vs {len(outs[0] or [])} rows)', case)
            return


def part2_start(cfgs, thorough, only=None):
    """launch the fresh-process runs (they overlap with the in-process part); returns a handle for part2_finish"""
    sel = [cfg for cfg in cfgs if not only or cfg['name'] in only]
    ex = ThreadPoolExecutor(10)
    futs = []
    for cfg in sel:
        cfg['_matrix'] = [tuple(x) for x in (cfg.get('matrix') or cli_matrix(cfg['name'], thorough))]
        futs.append([ex.submit(sc.cli_run, cfg['data'], hs, 900, bool(cfg.get('shim')), num_threads=t, **cfg['args']) for t, hs in cfg['_matrix']])
    probes = [ex.submit(noise_probe, hs) for hs in ('0', '1', 'random')]
    if not only or 'same-folder' in only:
        sf_seed = int(hashlib.md5(cfgs[0]['data'][:256].encode()).hexdigest()[:8], 16)
        probes += [('same-folder', kind, sf_seed, ex.submit(same_folder_probe, kind, sf_seed)) for kind in ('ob-raw-dump', 'csv-raw')]
    if not only:
        sspecs = session_specs(random.Random(hashlib.md5(repr([c['name'] for c in cfgs]).encode() + cfgs[0]['data'][:64].encode()).hexdigest()))
        probes += [(sspecs, [ex.submit(session_probe, sp) for sp in sspecs])]
    return ex, sel, futs, probes


def part2_finish(ctx: Ctx, handle):
    ex, sel, futs, probes = handle
    try:
        for cfg, fs in zip(sel, futs):
            judge_cli(ctx, cfg, cfg['_matrix'], [f.result() for f in fs])
        for p in [p for p in probes if isinstance(p, tuple) and p[0] == 'same-folder']:
            judge_same_folder(ctx, p[1], p[2], p[3].result())
        sess = [p for p in probes if isinstance(p, tuple) and p[0] != 'same-folder']
        pr = [f.result() for f in probes if not isinstance(f, tuple)]
        for sspecs, fs in sess:
            judge_sessions(ctx, sspecs, [f.result() for f in fs])
    finally:
        ex.shutdown(wait=True)
    ctx.evaluations += len(pr)
    ctx.count('p2-noise-probe', len(pr))
    ctx.extra['noise_probe'] = pr
    if any(p.startswith('ERROR') for p in pr):
        ctx.notes.append('noise probe could not run: ' + pr[0][:200])
    elif len(set(pr)) != 1:
        ctx.oracle_fail('fresh-run:noise-columns', f'the CONTROL-* noise columns built by include_noisy_features differ between fresh processes (PYTHONHASHSEED 0/1/random): {pr}', {'noise_probe': pr})


def part2(ctx: Ctx, cfgs, thorough, only=None):
    part2_finish(ctx, part2_start(cfgs, thorough, only))


# ---------------------------------------------------------------------------------------------

def evaluate(ctx: Ctx, cases, oracle_only=False):
    part1(ctx, [c for c in cases if 'cli' not in c], oracle_only)


def run(ctx: Ctx):
    th = ctx.thorough()
    cfgs = cli_configs(ctx.rng, th)
    cases = [gen_case(ctx.rng) for _ in range(160 if th else 36)]
    handle = part2_start(cfgs, th)                  # sub-processes; the in-process part runs meanwhile
    try:
        part1(ctx, cases)
    finally:
        part2_finish(ctx, handle)
    ctx.samples = ctx.samples[:5]
    ctx.sample({'part1_first_case': {k: v for k, v in cases[0].items()}, 'cli_configs': [(c['name'], c['args']) for c in cfgs]})


def search(ctx: Ctx):
    sub = Ctx(ctx.prop, ctx.tier)
    sub.rng.seed(f'search:{ctx.seed}')
    part1(sub, [gen_case(sub.rng) for _ in range(120)], oracle_only=True)
    cfgs = cli_configs(sub.rng, False)
    for c in cfgs:
        c['matrix'] = [(1, '0'), (1, '1'), (1, '2'), (1, '3'), (4, '0'), (8, 'random')]
    part2(sub, cfgs, False, only={'focus-pairwise', 'multivalue-pairwise', 'default-pairwise', 'same-folder'})
    return sub.oracle_failures


def replay(ctx: Ctx, payload):
    case = payload['case']
    if 'session' in case:
        specs = case['session']
        res = [session_probe(sp) for sp in specs]
        judge_sessions(ctx, [specs[0], specs[1], specs[0], specs[1]][:2] + [specs[0], specs[1]], [res[0], res[1], res[0], res[1]])
        return
    if 'same_folder' in case:
        judge_same_folder(ctx, case['same_folder'], case['seed'], same_folder_probe(case['same_folder'], case['seed']))
        return
    if 'cli' in case:
        cfg = {'name': case['cli'], 'args': case['args'], 'data': case['data'], 'matrix': [tuple(x) for x in case['matrix']],
               'shim': case['cli'].endswith('-shimmed')}
        part2(ctx, [cfg], False)
    elif 'noise_probe' in case:
        part2(ctx, [], False)
    else:
        part1(ctx, [{k: v for k, v in case.items() if k != 'sched'}])
