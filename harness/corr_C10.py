"""C10 – interaction features represent joint values faithfully.
Tie: real `compute_combined_features` (process-global sampler counter cleared per case, then 1..3 calls on it) vs the Lean
model `Construct.combine` (C07 sampler + `itertools.combinations` order + length-prefixed joint encoding + xxh64): whole output
frame cell by cell (digests!), names and order, originals before/after, equality patterns, and xxh64(model encoding) == cell.
Oracle: the property's clauses on the IMPLEMENTATION's columns: Lean `kernelB` (equal values iff rows agree on every
constituent), names = " AND ".join of a k-combination, originals untouched, count = min(cap, C(n,k))."""
from __future__ import annotations

import itertools
import math
import random
import types

import xxhash

from vp_common import Atom, Ctx, line, run_driver

PROP = 'C10'
RULE = ('string frames (1..12 rows, 2..6 non-label columns, label present/absent/at any position) whose values come from '
        'adversarial low-cardinality pools: digit strings that are prefixes/suffixes of one another, empty strings, values made '
        'of digits and ":" that imitate a length prefix, unicode (combining marks, astral, NBSP), delimiters; row labels default '
        'or (1/3) permuted / reversed / offset / string labels (columns must align by position); column names plain, '
        'with spaces/unicode, or containing " AND " (name clashes); one birthday frame of 2*10^5 pairwise different rows (the digest must behave like 64 bits); orders 0..5 (mostly 2..4), caps 0..C(n,k)+3, the AND_REL '
        '(3mr) variant, 1..3 consecutive calls on the same sampler counter. Non-trivial = a call that appended a column in which '
        'some two rows agree on every constituent and some two rows differ in exactly one constituent; distinct = distinct '
        '(frame, label, order, cap, variant, calls).')
ASSUMPTIONS = ['xxh64 is an external: theorems hold for every hash that is injective on the encoded values that occur ("up to 64-bit '
               'collisions"); the driver\'s own XXH64 is validated against xxhash on every cell',
               'column names of the input frame are pairwise distinct (pandas returns a sub-frame for a duplicated name)',
               'values are str (the pipeline parses text); len() counts code points like Lean String.length; no lone surrogates',
               'reference_model_JSON = "" in the modelled families; interactions requested through a reference model (mixed arities) are judged by the oracle alone',
               'nrows >= 1']

DIGITS = ['', '1', '11', '111', '12', '2', '21', '0', '01', '10', '1111']
PREFIX = ['1:a', '2:ab', 'a', 'ab', '1:a1:b', '1:', ':', '1', '3:1:a', 'a1:', '1:a1', ':b', 'b', '11:', '0:', '',
          'x' * 10, 'x' * 11, '1' * 12, ':' * 10, '10:' + 'x' * 10, 'x' * 100]
UNI = ['\u00e9', 'e\u0301', '\U0001F600', '\u00df', ' ', '\u00a0', '\u00fc', '', 'a\U0001F600', '\U0001F600a', '\u65e5\u672c', '\u65e5', '\u672c']
DELIM = ['a,b', 'a', 'b', ',', 'a-b', '-', '', ' AND ', 'AND', 'a AND b']


class PB:
    def set_description(self, *a, **k):
        pass


def gen_name_pool(rng):
    kind = rng.choice(['plain', 'plain', 'plain', 'odd', 'clash'])
    if kind == 'plain':
        return kind, [f'f{i}' for i in range(8)]
    if kind == 'odd':
        return kind, ['a b', 'é', 'f-1', 'x,y', '1', '11', 'AND', 'ü ü', '0']
    return kind, ['a', 'b', 'c', 'a AND b', 'b AND c', 'a AND b AND c', 'd']


def gen_case(rng, thorough):
    kind, pool = gen_name_pool(rng)
    m = rng.choice([2, 2, 3, 3, 4, 4, 5, 6])
    names = rng.sample(pool, min(m, len(pool)))
    m = len(names)
    n = rng.choice([1, 2, 3, 4, 5, 6, 8, 12])
    fam = rng.choice(['digits', 'digits', 'prefix', 'prefix', 'uni', 'delim', 'mixed'])
    base = {'digits': DIGITS, 'prefix': PREFIX, 'uni': UNI, 'delim': DELIM, 'mixed': DIGITS + PREFIX + UNI + DELIM}[fam]
    cols = []
    for nm in names:
        card = rng.choice([1, 2, 2, 3, 4, len(base)])
        vals = rng.sample(base, min(card, len(base)))
        cols.append([nm, [rng.choice(vals) for _ in range(n)]])
    # planted structure: a row pair that swaps prefix/suffix between two constituents, and an exact duplicate row
    if n >= 2 and m >= 2 and rng.random() < 0.6:
        i, j = rng.sample(range(n), 2)
        a, b = rng.sample(range(m), 2)
        # (x1, y1) in row i and (x2, y2) in row j collide under some NON-injective joint encoding
        x1, y1, x2, y2 = rng.choice([('1', '11', '11', '1'), ('', '1', '1', ''), ('1:a', '', '', '1:a'), ('a', 'ab', 'aa', 'b'),
                                     ('1:', ':', '1', '::'), ('e', '\u0301', 'e\u0301', ''), ('2:ab', '1:a', '2:ab1:', 'a'),
                                     ('a,', 'a', 'a', ',a'), ('a-', 'a', 'a', '-a'), ('a|', 'a', 'a', '|a'), ('a ', 'a', 'a', ' a'),
                                     ('a_', 'a', 'a', '_a'), ('1:a', 'b', '1', 'a1:b'), ('1', ':a1:b', '1:a', 'b'),
                                     ('1:11:', '1', '1', '1:1:1'), ('a\x00', 'a', 'a', '\x00a'), ('a\t', 'a', 'a', '\ta'),
                                     # multi-digit length prefixes: collide under str(len)+value without a terminator
                                     ('1', 'abcdefghi0', '10abcdefghi', ''), ('1', '0' * 10, '1' + '0' * 10, ''),
                                     ('x' * 10, 'y', 'x' * 9, 'xy'), ('1' * 100, '', '1' * 99, '1')])
        cols[a][1][i], cols[b][1][i] = x1, y1
        cols[a][1][j], cols[b][1][j] = x2, y2
        for c in range(m):
            if c not in (a, b):
                cols[c][1][j] = cols[c][1][i]
    if n >= 3 and rng.random() < 0.5:
        i, j = rng.sample(range(n), 2)
        for c in range(m):
            cols[c][1][j] = cols[c][1][i]
    lab = rng.choice(['present', 'present', 'absent'])
    label = 'label'
    if lab == 'present':
        cols.insert(rng.randint(0, m), [label, [rng.choice(['0', '1']) for _ in range(n)]])
    is3mr = rng.random() < 0.2
    order = rng.choice([2, 2, 2, 3, 3, 4, 4, 1, 0, 5])
    k = 2 if is3mr else order
    total = math.comb(m, k) if order > 1 else 0
    cap = rng.choice([0, 1, 2, max(0, total - 1), total, total + 3, rng.randint(0, total + 3), 2 ** 15])
    calls = rng.choice([1, 1, 2, 3])
    # row labels: the pipeline's batches carry the default RangeIndex, but the constructor is a library function on ANY frame;
    # a new column must be aligned with the rows by POSITION whatever the row labels are (sorted / filtered / shuffled frames)
    index = None
    ik = rng.choice(['range', 'range', 'perm', 'offset', 'str', 'rev']) if n >= 2 else 'range'
    if ik == 'perm':
        index = list(range(n)); rng.shuffle(index)
    elif ik == 'offset':
        index = [7 + 3 * i for i in range(n)]
    elif ik == 'str':
        index = [f'r{i}' for i in range(n)]; rng.shuffle(index)
    elif ik == 'rev':
        index = list(range(n))[::-1]
    return {'cols': cols, 'label': label, 'order': order, 'cap': cap, 'is3mr': is3mr, 'calls': calls, 'names': kind, 'fam': fam,
            'index': index}


def run_impl(case):
    import pandas as pd
    from outrank import core_ranking as cr
    cr.GLOBAL_PRIOR_COMB_COUNTS.clear()
    df = pd.DataFrame({nm: vals for nm, vals in case['cols']}, index=case.get('index'))
    args = types.SimpleNamespace(label_column=case['label'], interaction_order=case['order'],
                                 combination_number_upper_bound=case['cap'], reference_model_JSON='',
                                 heuristic='MI-numba-3mr' if case['is3mr'] else 'MI-numba-randomized')
    outs = []
    for _ in range(case['calls']):
        before = [[c, [v for v in df[c].tolist()]] for c in df.columns]
        try:
            out = cr.compute_combined_features(df, args, PB(), case['is3mr'])
            res = [[str(c), [v if isinstance(v, str) else repr(v) for v in out.iloc[:, i].tolist()]] for i, c in enumerate(out.columns)]
            after = [[c, [v for v in df[c].tolist()]] for c in df.columns]
            outs.append({'ok': True, 'out': res, 'inplace_ok': before == after})
        except Exception as e:   # noqa: BLE001
            outs.append({'ok': False, 'err': f'{type(e).__name__}: {e}'})
            break
    cr.GLOBAL_PRIOR_COMB_COUNTS.clear()
    return outs


def model_lines(case):
    ls = [line(Atom(PROP), Atom('reset'))]
    for _ in range(case['calls']):
        ls.append(line(Atom(PROP), Atom('combine'), case['cols'], case['label'], case['order'], case['cap'], bool(case['is3mr'])))
    return ls


def pattern(vals):
    seen = {}
    return [seen.setdefault(v, len(seen)) for v in vals]


def plan_oracle(case, outs):
    """derive (from the implementation's output alone) which constituents each appended column stands for"""
    inp = case['cols']
    feats = [c for c, _ in inp if c != case['label']]
    k = 2 if case['is3mr'] else case['order']
    join = ' AND_REL ' if case['is3mr'] else ' AND '
    cands = list(itertools.combinations(feats, k)) if case['order'] > 1 else []
    byname = {}
    ambiguous = False
    for c in cands:
        nm = join.join(c)
        if nm in byname:
            ambiguous = True
        byname[nm] = c
    plan = []
    for call_no, o in enumerate(outs):
        if not o['ok']:
            plan.append(('error', call_no, o['err']))
            continue
        out = o['out']
        if out[:len(inp)] != inp or not o['inplace_ok']:
            plan.append(('originals', call_no, None))
            continue
        new = out[len(inp):]
        expect = min(case['cap'], len(cands))
        if not ambiguous and len(new) != expect:
            plan.append(('count', call_no, (len(new), expect)))
            continue
        for nm, vals in new:
            if nm not in byname:
                plan.append(('name', call_no, nm))
            elif not ambiguous:
                plan.append(('kernel', call_no, (nm, list(byname[nm]), vals)))
    return plan, ambiguous


def evaluate(ctx: Ctx, cases, oracle_only=False):
    impl = [run_impl(c) for c in cases]
    req, spans, plans = [], [], []
    for c, outs in zip(cases, impl):
        m = [] if oracle_only else model_lines(c)
        plan, amb = plan_oracle(c, outs)
        o = [line(Atom(PROP), Atom('kernel'), c['cols'], p[2][1], p[2][2]) for p in plan if p[0] == 'kernel']
        spans.append((len(req), len(m), len(o)))
        plans.append((plan, amb))
        req += m + o
    rep = run_driver(req)
    for c, outs, (a, nm_, no), (plan, amb) in zip(cases, impl, spans, plans):
        ctx.evaluations += 1
        ctx.count('values:' + c['fam'])
        ctx.count('names:' + c['names'])
        ctx.count('order:%d' % c['order'])
        ctx.count('variant:' + ('AND_REL' if c['is3mr'] else 'AND'))
        ctx.count('calls:%d' % c['calls'])
        if amb:
            ctx.count('ambiguous-names(oracle skipped, tie only)')
        mrep, orep = rep[a:a + nm_], rep[a + nm_:a + nm_ + no]
        small = {k: c.get(k) for k in ('cols', 'label', 'order', 'cap', 'is3mr', 'calls', 'names', 'fam', 'index')}
        ctx.count('row-labels:' + ('default' if c.get('index') is None else 'non-default'))
        # ---- oracle on the implementation's output
        j = 0
        for kind, call_no, info in plan:
            if kind == 'error':
                ctx.oracle_fail('raises', f'call #{call_no}: compute_combined_features raised {info}', small)
            elif kind == 'originals':
                ctx.oracle_fail('originals-touched', f'call #{call_no}: the original columns are not an unchanged prefix of the output '
                                '(or the input frame was modified in place)', small)
            elif kind == 'count':
                ctx.oracle_fail('count', f'call #{call_no}: {info[0]} interaction columns appended, expected min(cap, C(n,k)) = {info[1]}', small)
            elif kind == 'name':
                ctx.oracle_fail('name', f'call #{call_no}: appended column {info!r} is not the join of a k-combination of the feature names', small)
            else:
                ok = orep[j]; j += 1
                if ok != Atom('true'):
                    nm, combo, vals = info
                    w = witness(c['cols'], combo, vals)
                    ctx.oracle_fail('kernel', f'call #{call_no}: column {nm!r}: {w}', shrink_kernel(c, combo))
        # ---- non-triviality
        for kind, call_no, info in plan:
            if kind == 'kernel':
                nm, combo, vals = info
                rows = list(zip(*[dict(c['cols'])[x] for x in combo]))
                agree = any(rows[i] == rows[k2] for i in range(len(rows)) for k2 in range(i))
                one = any(sum(x != y for x, y in zip(rows[i], rows[k2])) == 1 for i in range(len(rows)) for k2 in range(i))
                if agree and one:
                    ctx.nontrivial.add(repr((c['cols'], c['label'], c['order'], c['cap'], c['is3mr'], c['calls'])))
                    break
        # ---- correspondence
        if not oracle_only:
            ctx.traces += 1
            for call_no, o in enumerate(outs):
                mout, minfo = mrep[1 + call_no]
                if not o['ok']:
                    ctx.corr_fail('raises', f'call #{call_no}: implementation raised {o["err"]}, model returns a frame', small)
                    break
                if o['out'] != mout:
                    ctx.corr_fail('frame', f'call #{call_no}: ' + first_diff(o['out'], mout), small)
                    break
                # xxh64 of the model's encoding == implementation's cell (validates the driver's XXH64 independently)
                bad = None
                implcols = dict((x[0], x[1]) for x in o['out'][len(c['cols']):])
                for nm, combo, encs in minfo:
                    if [xxhash.xxh64(e.encode('utf-8')).hexdigest() for e in encs] != implcols.get(nm) and \
                            [n2 for n2, _, _ in minfo].count(nm) == 1:
                        bad = nm
                if bad is not None:
                    ctx.corr_fail('digest', f'call #{call_no}: column {bad!r} is not xxh64 of the model encoding', small)
                    break
                if [pattern(v) for _, v in o['out']] != [pattern(v) for _, v in mout]:
                    ctx.corr_fail('pattern', f'call #{call_no}: equality patterns differ', small)
                    break
        ctx.sample({'case': small, 'impl_columns': [x[0] for x in outs[0]['out']] if outs and outs[0]['ok'] else outs[:1]})


def birthday(ctx: Ctx, nrows=200_000):
    """"up to 64-bit hash collisions": on N pairwise different value tuples a 64-bit digest collides with probability
    ~ N^2 / 2^65 (1e-9 for N = 2*10^5), a 32-bit one almost surely (expected N^2 / 2^33 = 4.7 collisions).  One big frame of
    pairwise different rows: the interaction column must have N different values."""
    import pandas as pd
    from outrank import core_ranking as cr
    cr.GLOBAL_PRIOR_COMB_COUNTS.clear()
    # values are 16 random hex characters: short structured strings (small integers) never collide even under xxh32, whose
    # mixing is injective on inputs that differ in a few low bytes, so they would not discriminate
    r = random.Random(20141025)
    pool = ['%016x' % r.getrandbits(64) for _ in range(2 * 1000)]
    a = [pool[i % 1000] for i in range(nrows)]
    b = [pool[1000 + i // 1000] for i in range(nrows)]
    df = pd.DataFrame({'a': a, 'b': b})
    args = types.SimpleNamespace(label_column='label', interaction_order=2, combination_number_upper_bound=8,
                                 reference_model_JSON='', heuristic='MI-numba-randomized')
    ctx.evaluations += 1
    ctx.count('birthday-frame(%d distinct tuples)' % nrows)
    case = {'birthday': nrows}
    try:
        out = cr.compute_combined_features(df, args, PB(), False)
    except Exception as e:   # noqa: BLE001
        ctx.oracle_fail('raises', f'birthday frame ({nrows} rows): compute_combined_features raised {type(e).__name__}: {e}', case)
        return
    finally:
        cr.GLOBAL_PRIOR_COMB_COUNTS.clear()
    if 'a AND b' not in out.columns:
        ctx.oracle_fail('name', f'birthday frame: no column "a AND b" among {list(out.columns)}', case)
        return
    vals = out['a AND b'].tolist()
    distinct = len(set(vals))
    ctx.nontrivial.add(('birthday', nrows))
    if len(vals) != nrows or distinct != nrows:
        seen, wit = {}, None
        for i, v in enumerate(vals):
            if v in seen:
                wit = (seen[v], i)
                break
            seen[v] = i
        w = f'rows {wit[0]} and {wit[1]} hold {(a[wit[0]], b[wit[0]])} / {(a[wit[1]], b[wit[1]])} but the same interaction value {vals[wit[0]]!r}' if wit else ''
        ctx.oracle_fail('hash-width', f'{nrows} pairwise different value tuples give only {distinct} different interaction values ({w}): '
                        f'that many collisions have probability ~1e-9 under a 64-bit hash', case)


def witness(cols, combo, vals):
    d = dict((a, b) for a, b in cols)
    rows = list(zip(*[d[x] for x in combo]))
    for i in range(len(rows)):
        for j in range(i):
            if (vals[i] == vals[j]) != (rows[i] == rows[j]):
                return (f'rows {j} and {i} have constituent values {rows[j]} / {rows[i]} over {combo} but interaction values '
                        f'{vals[j]} / {vals[i]}')
    if len(vals) != len(rows):
        return f'{len(vals)} values for {len(rows)} rows'
    return 'kernel mismatch'


def shrink_kernel(case, combo):
    """smallest replay: the constituents (+label) and the two offending rows, one call, no cap"""
    d = dict((a, b) for a, b in case['cols'])
    out = run_impl({**case, 'calls': 1, 'cap': 2 ** 15})
    keep = [[a, b] for a, b in case['cols'] if a in combo or a == case['label']]
    small = {**case, 'cols': keep, 'calls': 1, 'cap': 2 ** 15, 'order': len(combo) if not case['is3mr'] else case['order']}
    rows = list(zip(*[d[x] for x in combo]))
    try:
        o = run_impl(small)
        new = o[0]['out'][len(keep):]
        if o[0]['ok'] and len(new) == 1:
            vals = new[0][1]
            for i in range(len(rows)):
                for j in range(i):
                    if (vals[i] == vals[j]) != (rows[i] == rows[j]):
                        idx = case.get('index')
                        two = {**small, 'cols': [[a, [b[j], b[i]]] for a, b in keep], 'index': [idx[j], idx[i]] if idx else None}
                        o2 = run_impl(two)
                        v2 = o2[0]['out'][len(keep):][0][1]
                        if (v2[0] == v2[1]) != (rows[i] == rows[j]):
                            return two
                        return small
    except Exception:   # noqa: BLE001
        pass
    del out
    return {k: case.get(k) for k in ('cols', 'label', 'order', 'cap', 'is3mr', 'calls', 'names', 'fam', 'index')}


def first_diff(a, b):
    if [x[0] for x in a] != [x[0] for x in b]:
        return f'column names/order differ: impl {[x[0] for x in a]} model {[x[0] for x in b]}'
    for (n1, v1), (_, v2) in zip(a, b):
        if v1 != v2:
            i = next(i for i in range(max(len(v1), len(v2))) if i >= len(v1) or i >= len(v2) or v1[i] != v2[i])
            return f'column {n1!r} row {i}: impl {v1[i] if i < len(v1) else None!r} model {v2[i] if i < len(v2) else None!r}'
    return 'frames differ'


def corpus():
    f6 = {'cols': [['a', ['1', '11']], ['b', ['11', '1']]], 'label': 'label', 'order': 2, 'cap': 2 ** 15, 'is3mr': False,
          'calls': 1, 'names': 'plain', 'fam': 'digits'}
    return [
        f6,
        {**f6, 'cols': [['a', ['', 'x', '1:a']], ['b', ['x', '', '']], ['label', ['0', '1', '0']]]},
        {**f6, 'cols': [['a', ['1:a', '']], ['b', ['', '1:a']], ['c', ['é', 'é']]], 'order': 3},
        {**f6, 'cols': [['a', ['1:a1:b', '1:a', 'a']], ['b', ['', '1:b', 'a']], ['c', ['q', 'q', 'q']], ['d', ['1', '1', '11']]],
         'order': 2, 'cap': 4, 'calls': 3},
        {**f6, 'cols': [['a', ['1', '2', '1']], ['b', ['x', 'x', 'x']], ['a AND b', ['3', '3', '4']], ['c', ['p', 'q', 'p']]],
         'order': 2, 'names': 'clash'},
        {**f6, 'cols': [['a', ['1', '11', '1']], ['b', ['11', '1', '11']], ['c', ['0', '0', '1']]], 'is3mr': True, 'order': 3},
        {**f6, 'cols': [['a', ['1', '11', '1']], ['b', ['11', '1', '11']]], 'is3mr': True, 'order': 1},
        # non-default row labels (seeded change C10-C: label-aligned concat of position-built columns)
        {**f6, 'cols': [['f_a', ['1', '11', '1']], ['f_b', ['11', '1', '11']], ['f_c', ['x', 'x', 'x']], ['label', ['0', '1', '0']]],
         'index': [0, 2, 1]},
        {**f6, 'cols': [['a', ['p', 'q', 'p', 'r']], ['b', ['u', 'u', 'u', 'v']]], 'index': ['r3', 'r0', 'r2', 'r1']},
    ]


def gen_pipeline_case(rng):
    """a batch as the ranking task builds it (`compute_batch_ranking`): text rows, the CLI's missing-value symbols among the values"""
    names = rng.sample(['a', 'b', 'c', 'user id', 'é'], rng.choice([2, 3, 4]))
    n = rng.choice([3, 5, 9, 20, 40])
    pool = ['', '{}', 'x', 'y', '1', '11', 'NA', ' ']
    cols = [[nm, [rng.choice(pool) for _ in range(n)]] for nm in names]
    cols.insert(rng.randrange(len(cols) + 1), ['label', [rng.choice(['0', '1']) for _ in range(n)]])
    return {'pipeline': True, 'cols': cols, 'order': rng.choice([2, 2, 3]), 'missing': rng.choice([',{}', ',{}', ',{},NA', 'NA']),
            'heuristic': rng.choice(['MI-numba-randomized', 'MI-numba-randomized', 'MI-numba-3mr'])}


def evaluate_pipeline(ctx: Ctx, cases):
    """oracle only: in the frame that compute_batch_ranking hands to the ranker every ` AND ` / ` AND_REL ` column over original
    columns takes equal values on two rows iff the rows agree on every constituent; the original columns are untouched"""
    import logging

    from outrank import core_ranking as cr
    from outrank.core_utils import BatchRankingSummary
    lg = logging.getLogger('c10-null')
    lg.disabled = True
    for c in cases:
        ctx.evaluations += 1
        ctx.count('interaction-values-on-the-pipeline-path')
        names = [nm for nm, _ in c['cols']]
        rows = [list(r) for r in zip(*[v for _, v in c['cols']])]
        args = types.SimpleNamespace(
            task='ranking', minibatch_size=2 ** 14, output_folder='ranking_outputs', data_source='csv-raw', data_path=None, subsampling=1,
            combination_number_upper_bound=1000, missing_value_symbols=c['missing'], heuristic=c['heuristic'],
            include_noise_baseline_features='False', include_cardinality_in_feature_names='True', image_format='pdf', num_threads=1,
            label_column='label', max_unique_hist_constraint=30000, transformers='none', rare_value_count_upper_bound=1, feature_set_focus=None,
            interaction_order=c['order'], reference_model_JSON='', target_ranking_only='True', explode_multivalue_features='False',
            subfeature_mapping='False', num_synthetic_features=100, tldr='True', num_synthetic_rows=1000, generator_type='naive',
            output_synthetic_df_name='x', disable_tqdm='True', mi_stratified_sampling_ratio=1.0)
        seen = {}
        orig = (cr.mixed_rank_graph, cr.compute_cardinalities)

        def fake_rank(df, a, pool, pbar):
            seen['frame'] = df.copy()
            return BatchRankingSummary([], {})
        for g in (cr.GLOBAL_CARDINALITY_STORAGE, cr.GLOBAL_COUNTS_STORAGE, cr.GLOBAL_RARE_VALUE_STORAGE, cr.GLOBAL_PRIOR_COMB_COUNTS, cr.IGNORED_VALUES):
            g.clear()
        show = (f'compute_batch_ranking (interaction_order={c["order"]}, heuristic={c["heuristic"]}, missing_value_symbols={c["missing"]!r}) on the rows '
                f'{rows[:6]}{"…" if len(rows) > 6 else ""} of columns {names}')
        logging.disable(logging.CRITICAL)
        try:
            cr.mixed_rank_graph = fake_rank
            cr.compute_cardinalities = lambda *a, **k: None
            cr.compute_batch_ranking([r[:] for r in rows], set(), args, None, names, lg, PB())
        except Exception as e:   # noqa: BLE001
            ctx.oracle_fail('pipeline-raises', f'{show}: raised {type(e).__name__}: {e}', {'pipeline_case': c})
            continue
        finally:
            cr.mixed_rank_graph, cr.compute_cardinalities = orig
            logging.disable(logging.NOTSET)
            for g in (cr.GLOBAL_CARDINALITY_STORAGE, cr.GLOBAL_COUNTS_STORAGE, cr.GLOBAL_RARE_VALUE_STORAGE, cr.GLOBAL_PRIOR_COMB_COUNTS, cr.IGNORED_VALUES):
                g.clear()
        df = seen.get('frame')
        if df is None:
            ctx.count('pipeline-path:ranker-not-reached')
            continue
        colv = dict((nm, v) for nm, v in c['cols'])
        if any(nm not in df.columns or [str(x) for x in df[nm].tolist()] != colv[nm] for nm in names):
            ctx.oracle_fail('originals', f'{show}: an original column is missing from / changed in the frame handed to the ranker', {'pipeline_case': c})
            continue
        for nm in df.columns:
            nm = str(nm)
            for join in (' AND_REL ', ' AND '):
                parts = nm.split(join)
                if len(parts) >= 2 and all(p in colv and p != 'label' for p in parts):
                    vals = [str(x) for x in df[nm].tolist()]
                    tuples = list(zip(*[colv[p] for p in parts]))
                    if pattern(vals) != pattern(tuples):
                        i, j = next((i, j) for i in range(len(vals)) for j in range(len(vals)) if (vals[i] == vals[j]) != (tuples[i] == tuples[j]))
                        ctx.oracle_fail('kernel', f'{show}: column {nm!r}: rows {i} and {j} have constituent values {tuples[i]} / {tuples[j]} but interaction '
                                        f'values {vals[i]!r} / {vals[j]!r}', {'pipeline_case': c})
                    else:
                        ctx.nontrivial.add(('pipeline', nm, tuple(tuples)))
                    break


def gen_reference_case(rng):
    """interaction features requested through --reference_model_JSON: combinations of DIFFERENT arity in one model file"""
    names = rng.sample(['f0', 'f1', 'f2', 'f3', 'g', 'user id', 'é'], rng.choice([3, 4, 5]))
    n = rng.choice([2, 3, 5, 9, 20])
    cols = [[nm, [rng.choice(DIGITS + ['x', 'xx', 'x1']) for _ in range(n)]] for nm in names]
    cols.insert(rng.randrange(len(cols) + 1), ['label', [rng.choice(['0', '1']) for _ in range(n)]])
    combos = []
    for _ in range(rng.choice([1, 2, 3, 4])):
        c = tuple(rng.sample(names, rng.choice([2, 2, 3, min(4, len(names))])))
        if sorted(c) not in [sorted(x) for x in combos]:
            combos.append(c)
    return {'reference': True, 'cols': cols, 'combos': [list(c) for c in combos], 'singles': rng.sample(names, rng.choice([0, 1, 2])),
            'order': rng.choice([1, 1, 2])}


def evaluate_reference(ctx: Ctx, cases):
    import json
    import os
    import tempfile

    import pandas as pd
    from outrank import core_ranking as cr
    for c in cases:
        ctx.evaluations += 1
        ctx.count('reference-model-interactions')
        arities = sorted({len(x) for x in c['combos']})
        ctx.count('reference-arities:' + ','.join(map(str, arities)))
        df = pd.DataFrame({nm: vals for nm, vals in c['cols']})
        fd, path = tempfile.mkstemp(suffix='.json', prefix='c10ref_')
        os.close(fd)
        try:
            with open(path, 'w') as fh:
                json.dump({'desc': {'features': list(c['singles']) + [','.join(x) for x in c['combos']]}}, fh)
            args = types.SimpleNamespace(label_column='label', interaction_order=c['order'], combination_number_upper_bound=1000, reference_model_JSON=path,
                                         heuristic='MI-numba-randomized')
            cr.GLOBAL_PRIOR_COMB_COUNTS.clear()
            show = (f'reference model with the interactions {c["combos"]} (interaction_order={c["order"]}) on the frame '
                    f'{[(nm, v[:6]) for nm, v in c["cols"]]}')
            try:
                out = cr.compute_combined_features(df.copy(), args, PB(), False)
            except Exception as e:   # noqa: BLE001
                ctx.oracle_fail('reference-raises', f'{show}: compute_combined_features raised {type(e).__name__}: {e}', {'reference_case': c})
                continue
        finally:
            cr.GLOBAL_PRIOR_COMB_COUNTS.clear()
            os.unlink(path)
        k = df.shape[1]
        if list(out.columns[:k]) != list(df.columns) or not out.iloc[:, :k].equals(df):
            ctx.oracle_fail('originals', f'{show}: the original columns changed', {'reference_case': c})
            continue
        new = {str(nm): [str(v) for v in out.iloc[:, j].tolist()] for j, nm in enumerate(out.columns) if j >= k}
        want = [' AND '.join(sorted(x)) for x in c['combos']]
        missing = [w for w in want if w not in new]
        if missing:
            ctx.oracle_fail('reference-missing', f'{show}: no column {missing[0]!r} among the new columns {sorted(new)}', {'reference_case': c})
            continue
        colv = dict((nm, v) for nm, v in c['cols'])
        for nm, vals in new.items():
            parts = nm.split(' AND ')
            if not all(p in colv for p in parts):
                continue
            tuples = list(zip(*[colv[p] for p in parts]))
            if pattern(vals) != pattern(tuples):
                i, j = next((i, j) for i in range(len(vals)) for j in range(len(vals)) if (vals[i] == vals[j]) != (tuples[i] == tuples[j]))
                ctx.oracle_fail('kernel', f'{show}: column {nm!r}: rows {i} and {j} have constituent values {tuples[i]} / {tuples[j]} but interaction values '
                                f'{vals[i]} / {vals[j]}', {'reference_case': c})
                break
        else:
            if len(arities) > 1:
                ctx.nontrivial.add(repr(c))


def run(ctx: Ctx):
    n = 30000 if ctx.thorough() else 1500
    cases = corpus() + [gen_case(ctx.rng, ctx.thorough()) for _ in range(n)]
    evaluate(ctx, cases)
    evaluate_reference(ctx, [gen_reference_case(ctx.rng) for _ in range(3000 if ctx.thorough() else 300)])
    evaluate_pipeline(ctx, [gen_pipeline_case(ctx.rng) for _ in range(2000 if ctx.thorough() else 250)])
    birthday(ctx, 400_000 if ctx.thorough() else 200_000)


def replay(ctx: Ctx, payload):
    c = payload['case']
    if 'pipeline_case' in c:
        evaluate_pipeline(ctx, [c['pipeline_case']])
    elif 'reference_case' in c:
        evaluate_reference(ctx, [c['reference_case']])
    elif 'birthday' in c:
        birthday(ctx, c['birthday'])
    else:
        evaluate(ctx, [c])


def search(ctx: Ctx):
    sub = Ctx(ctx.prop, ctx.tier)
    sub.rng.seed(f'search:{ctx.seed}')
    cases = [gen_case(sub.rng, True) for _ in range(3200)]
    evaluate(sub, cases, oracle_only=True)
    evaluate_reference(sub, [gen_reference_case(sub.rng) for _ in range(1500)])
    evaluate_pipeline(sub, [gen_pipeline_case(sub.rng) for _ in range(1000)])
    birthday(sub, 400_000)
    return sub.oracle_failures
