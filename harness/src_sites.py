"""Anchored functions per property (resolved from properties.jsonl anchors at the base commit, nested functions folded into their
parents, helpers the models mirror added) and the translated expression sites.  See src_translate.py / DESIGN §11.1."""

def A(file, qual, sites=()):
    return {'file': file, 'qual': qual, 'sites': list(sites)}


def S(name, find, params=None, nth=None, type=None):
    d = {'name': name, 'find': find, 'params': params or {}}
    if nth is not None:
        d['nth'] = nth
    if type:
        d['type'] = type
    return d


ANCHORS = {
    'C01': [
        A('outrank/algorithms/feature_ranking/ranking_mi_numba.py', 'numba_unique'),
        A('outrank/algorithms/feature_ranking/ranking_mi_numba.py', 'compute_conditional_entropy'),
        A('outrank/algorithms/feature_ranking/ranking_mi_numba.py', 'compute_entropies'),
        A('outrank/algorithms/feature_ranking/ranking_mi_numba.py', 'mutual_info_estimator_numba'),
        A('outrank/core_ranking.py', 'mixed_rank_graph'),
        A('outrank/algorithms/importance_estimator.py', 'numba_mi'),
        A('outrank/algorithms/importance_estimator.py', 'conduct_feature_ranking'),
        A('outrank/algorithms/importance_estimator.py', 'get_importances_estimate_pairwise'),
    ],
    'C02': [
        A('outrank/algorithms/feature_ranking/ranking_mi_numba.py', 'mutual_info_estimator_numba'),
        A('outrank/algorithms/feature_ranking/ranking_mi_numba.py', 'compute_entropies'),
        A('outrank/core_ranking.py', 'mixed_rank_graph'),
        A('outrank/algorithms/importance_estimator.py', 'numba_mi'),
        A('outrank/algorithms/importance_estimator.py', 'conduct_feature_ranking'),
    ],
    'C03': [
        A('outrank/algorithms/feature_ranking/ranking_mi_numba.py', 'compute_entropies'),
        A('outrank/algorithms/importance_estimator.py', 'numba_mi'),
        A('outrank/core_ranking.py', 'mixed_rank_graph'),
        A('outrank/algorithms/importance_estimator.py', 'conduct_feature_ranking'),
        A('outrank/algorithms/importance_estimator.py', 'get_importances_estimate_pairwise'),
    ],
    'C04': [
        A('outrank/algorithms/importance_estimator.py', 'conduct_feature_ranking'),
        A('outrank/algorithms/feature_ranking/ranking_mi_numba.py', 'stratified_subsampling'),
        A('outrank/algorithms/feature_ranking/ranking_mi_numba.py', 'mutual_info_estimator_numba'),
        A('outrank/algorithms/importance_estimator.py', 'numba_mi'),
    ],
    'C05': [
        A('outrank/algorithms/importance_estimator.py', 'conduct_feature_ranking'),
        A('outrank/algorithms/importance_estimator.py', 'generate_data_for_ranking'),
        A('outrank/core_ranking.py', 'mixed_rank_graph'),
        A('outrank/algorithms/feature_ranking/ranking_cov_alignment.py', 'max_pair_coverage'),
        A('outrank/algorithms/importance_estimator.py', 'numba_mi'),
        A('outrank/algorithms/importance_estimator.py', 'get_importances_estimate_pairwise'),
        A('outrank/algorithms/importance_estimator.py', 'sklearn_MI'),
        A('outrank/algorithms/importance_estimator.py', 'sklearn_mi_adj'),
    ],
    'C06': [
        A('outrank/core_ranking.py', 'get_combinations_from_columns'),
        A('outrank/core_ranking.py', 'mixed_rank_graph'),
        A('outrank/core_ranking.py', 'prior_combinations_sample'),
    ],
    'C07': [
        A('outrank/core_ranking.py', 'prior_combinations_sample'),
        A('outrank/task_ranking.py', 'outrank_task_conduct_ranking'),
        A('outrank/core_ranking.py', '<module>'),
        A('outrank/core_ranking.py', 'mixed_rank_graph'),
    ],
    'C08': [
        A('outrank/core_ranking.py', 'estimate_importances_minibatches'),
        A('outrank/core_ranking.py', 'get_grouped_df'),
        A('outrank/core_ranking.py', 'checkpoint_importances_df'),
        A('outrank/task_ranking.py', 'outrank_task_conduct_ranking'),
        A('outrank/__main__.py', 'main'),
        A('outrank/core_utils.py', 'get_dataset_info'),
        A('outrank/core_utils.py', 'parse_csv_raw'),
    ],
    'C09': [
        A('outrank/core_ranking.py', 'mixed_rank_graph'),
        A('outrank/algorithms/importance_estimator.py', 'get_importances_estimate_pairwise'),
        A('outrank/core_ranking.py', '<module>'),
        A('outrank/algorithms/feature_ranking/ranking_mi_numba.py', '<module>'),
        A('outrank/core_ranking.py', 'prior_combinations_sample'),
        A('outrank/core_ranking.py', 'compute_batch_ranking'),
        A('outrank/core_ranking.py', 'compute_expanded_multivalue_features'),
        A('outrank/core_utils.py', 'get_dataset_info'),
        A('outrank/core_utils.py', 'parse_ob_raw_feature_information'),
        A('outrank/core_utils.py', 'parse_csv_raw'),
        A('outrank/__main__.py', 'main'),
    ],
    'C10': [
        A('outrank/core_ranking.py', 'compute_combined_features'),
        A('outrank/core_ranking.py', 'prior_combinations_sample'),
    ],
    'C11': [
        A('outrank/core_ranking.py', 'compute_expanded_multivalue_features'),
        A('outrank/core_ranking.py', 'compute_subfeatures'),
        A('outrank/feature_transformations/ranking_transformers.py', 'FeatureTransformerNoise.__init__'),
        A('outrank/feature_transformations/ranking_transformers.py', 'FeatureTransformerNoise.construct_new_features'),
        A('outrank/core_ranking.py', 'compute_batch_ranking'),
        A('outrank/core_ranking.py', 'enrich_with_transformations'),
        A('outrank/core_ranking.py', 'include_noisy_features'),
    ],
    'C12': [
        A('outrank/feature_transformations/ranking_transformers.py', 'FeatureTransformerGeneric.__init__'),
        A('outrank/feature_transformations/ranking_transformers.py', 'FeatureTransformerGeneric.get_vals'),
        A('outrank/feature_transformations/ranking_transformers.py', 'FeatureTransformerGeneric.construct_new_features'),
        A('outrank/feature_transformations/feature_transformer_vault/fw_transformers.py', '<module>'),
        A('outrank/core_ranking.py', 'enrich_with_transformations'),
    ],
    'C13': [
        A('outrank/core_ranking.py', 'compute_coverage'),
        A('outrank/core_ranking.py', 'compute_value_counts'),
        A('outrank/task_ranking.py', 'outrank_task_conduct_ranking'),
        A('outrank/core_utils.py', 'summarize_rare_counts'),
        A('outrank/core_ranking.py', '<module>'),
        A('outrank/core_ranking.py', 'compute_cardinalities'),
        A('outrank/core_utils.py', 'internal_hash'),
        A('outrank/core_ranking.py', 'estimate_importances_minibatches'),
    ],
    'C14': [
        A('outrank/algorithms/sketches/counting_ultiloglog.py', 'HyperLogLogWCache.add'),
        A('outrank/algorithms/sketches/counting_ultiloglog.py', 'HyperLogLogWCache.__len__'),
        A('outrank/algorithms/sketches/counting_ultiloglog.py', 'HyperLogLogWCache.__init__'),
        A('outrank/algorithms/sketches/counting_ultiloglog.py', 'HyperLogLogWCache._hasher_update'),
        A('outrank/core_ranking.py', 'compute_cardinalities'),
    ],
    'C15': [
        A('outrank/algorithms/sketches/counting_cms.py', 'cms_hash'),
        A('outrank/algorithms/sketches/counting_cms.py', 'CountMinSketch._add'),
        A('outrank/algorithms/sketches/counting_cms.py', 'CountMinSketch.add'),
        A('outrank/algorithms/sketches/counting_cms.py', 'CountMinSketch.batch_add'),
        A('outrank/algorithms/sketches/counting_cms.py', 'CountMinSketch.query'),
        A('outrank/algorithms/sketches/counting_counters_ordinary.py', 'PrimitiveConstrainedCounter.add'),
        A('outrank/algorithms/sketches/counting_cms.py', 'CountMinSketch.__init__'),
        A('outrank/algorithms/sketches/counting_counters_ordinary.py', 'PrimitiveConstrainedCounter.__init__'),
        A('outrank/algorithms/sketches/counting_counters_ordinary.py', 'PrimitiveConstrainedCounter.batch_add'),
        A('outrank/core_ranking.py', 'compute_cardinalities'),
    ],
    'C16': [
        A('outrank/core_utils.py', 'parse_ob_csv_line'),
        A('outrank/core_utils.py', 'parse_ob_line'),
        A('outrank/core_utils.py', 'parse_ob_line_vw'),
        A('outrank/core_utils.py', 'generic_line_parser'),
        A('outrank/core_utils.py', 'parse_namespace'),
        A('outrank/core_ranking.py', 'estimate_importances_minibatches'),
    ],
    'C17': [
        A('outrank/algorithms/importance_estimator.py', 'rank_features_3MR'),
        A('outrank/task_ranking.py', 'outrank_task_conduct_ranking'),
    ],
    'C18': [
        A('outrank/task_summary.py', 'generate_final_ranking'),
        A('outrank/task_summary.py', 'create_final_dataframe'),
        A('outrank/task_summary.py', 'handle_interaction_order'),
        A('outrank/task_summary.py', 'filter_transformers_only'),
        A('outrank/task_summary.py', 'read_and_sort_triplets'),
        A('outrank/task_summary.py', 'outrank_task_result_summary'),
        A('outrank/task_summary.py', 'store_summary_files'),
        A('outrank/__main__.py', 'main'),
    ],
    'C19': [
        A('outrank/algorithms/synthetic_data_generators/cc_generator.py', 'CategoricalClassification.generate_data'),
        A('outrank/algorithms/synthetic_data_generators/cc_generator.py', 'CategoricalClassification._generate_feature'),
        A('outrank/algorithms/synthetic_data_generators/generator_naive.py', 'generate_random_matrix'),
        A('outrank/task_generators.py', 'outrank_task_generate_data_set'),
        A('outrank/algorithms/synthetic_data_generators/cc_generator.py', 'CategoricalClassification._configure_generate_feature'),
    ],
    'C20': [
        A('outrank/algorithms/synthetic_data_generators/cc_generator.py', 'CategoricalClassification.generate_correlated'),
        A('outrank/algorithms/synthetic_data_generators/cc_generator.py', 'CategoricalClassification.generate_duplicates'),
        A('outrank/algorithms/synthetic_data_generators/cc_generator.py', 'CategoricalClassification.generate_combinations'),
        A('outrank/algorithms/synthetic_data_generators/cc_generator.py', 'CategoricalClassification.generate_labels'),
        A('outrank/algorithms/synthetic_data_generators/cc_generator.py', 'CategoricalClassification._cluster_data'),
        A('outrank/algorithms/synthetic_data_generators/cc_generator.py', 'CategoricalClassification.generate_noise'),
        A('outrank/algorithms/synthetic_data_generators/cc_generator.py', 'CategoricalClassification.downsample_dataset'),
        A('outrank/algorithms/synthetic_data_generators/cc_generator.py', 'CategoricalClassification.__init__'),
        A('outrank/algorithms/synthetic_data_generators/cc_generator.py', 'CategoricalClassification._xor'),
        A('outrank/algorithms/synthetic_data_generators/cc_generator.py', 'CategoricalClassification._and'),
        A('outrank/algorithms/synthetic_data_generators/cc_generator.py', 'CategoricalClassification._or'),
    ],
}

MI = 'outrank/algorithms/feature_ranking/ranking_mi_numba.py'
COV = 'outrank/algorithms/feature_ranking/ranking_cov_alignment.py'
IE = 'outrank/algorithms/importance_estimator.py'
CR = 'outrank/core_ranking.py'
HLL = 'outrank/algorithms/sketches/counting_ultiloglog.py'
CMS = 'outrank/algorithms/sketches/counting_cms.py'
CTR = 'outrank/algorithms/sketches/counting_counters_ordinary.py'
TR = 'outrank/feature_transformations/ranking_transformers.py'
CC = 'outrank/algorithms/synthetic_data_generators/cc_generator.py'
NAIVE = 'outrank/algorithms/synthetic_data_generators/generator_naive.py'
TS = 'outrank/task_summary.py'

STR = 'Str'
RAT = 'Rat'
STRS = 'StrList'
CU = 'outrank/core_utils.py'

# `parse_csv_raw`: the header split (anchored by C08, C13 and C16; the model is `Pipeline.headerCols` = C16.splitOn ',' ∘ C16.pyStrip)
HEADER_SITES = lambda: [  # noqa: E731
    S('headerFields', 'header.strip().split(col_delimiter)', {'header': ('header', STR), 'col_delimiter': ('d', STR)}),
]

# translated expression sites: (property, file, qualified function) -> sites.  A site shared by several properties is listed
# under each of them with a property-specific definition name space (Gen.Src.Cxx).
SITES = {
    # ---- MI estimator (C01-C04)
    ('C01', MI, 'compute_entropies'): [
        S('singletonSkip', '_f_value_counts == 1', {'_f_value_counts': 'c'}),
    ],
    ('C01', MI, 'numba_unique'): [
        S('containerSize', 'np.max(a) + 1', {'np.max(a)': 'mx'}),
    ],
    ('C03', MI, 'compute_entropies'): [
        S('singletonSkip', '_f_value_counts == 1', {'_f_value_counts': 'c'}),
        S('displaced', '(el + _f_value_counts) % len(Y)', {'el': 'i', '_f_value_counts': 'c', 'len(Y)': 'n'}),
    ],
    ('C03', IE, 'generate_data_for_ranking'): [
        S('labelFirst', 'feature_one == args.label_column', {'feature_one': ('a', STR), 'args.label_column': ('label', STR)}),
    ],
    ('C03', IE, 'get_importances_estimate_pairwise'): [],
    ('C03', CR, 'get_combinations_from_columns'): [],
    ('C04', IE, 'generate_data_for_ranking'): [],
    ('C04', IE, 'get_importances_estimate_pairwise'): [],
    ('C03', IE, 'numba_mi'): [
        S('correctionFlag', "heuristic == 'MI-numba-randomized'", {'heuristic': ('h', STR)}),
    ],
    ('C04', MI, 'stratified_subsampling'): [
        S('quota', 'int(final_space_size / len(_f_values_X))', {'final_space_size': 'fs', 'len(_f_values_X)': 'k'}),
        S('keepAll', 'unique_samples_per_val == 0', {'unique_samples_per_val': 'q'}),
        S('nextOffset', 'index_offset + x_indices_len', {'index_offset': 'off', 'x_indices_len': 'len'}),
    ],
    ('C04', MI, 'mutual_info_estimator_numba'): [
        S('subsample', 'approximation_factor < 1.0', {'approximation_factor': ('r', RAT)}),
    ],
    # ---- scoring (C05)
    ('C05', COV, 'max_pair_coverage'): [
        S('pairHash', '(el1 * 1471343 - el2) % max_size', {'el1': 'a', 'el2': 'b', 'max_size': 'M'}),
    ],
    ('C05', COV, '<module>'): [
        S('maxSize', '10 ** 6'),
    ],
    ('C05', IE, 'generate_data_for_ranking'): [
        S('labelFirst', 'feature_one == args.label_column', {'feature_one': ('a', STR), 'args.label_column': ('label', STR)}),
    ],
    ('C05', IE, 'numba_mi'): [
        S('correctionFlag', "heuristic == 'MI-numba-randomized'", {'heuristic': ('h', STR)}),
    ],
    # ---- pair enumeration, sampler (C06, C07)
    ('C06', CR, 'get_combinations_from_columns'): [
        S('is3mr', "'3mr' in args.heuristic", {'args.heuristic': ('h', STR)}),
        S('clamp', 'args.combination_number_upper_bound > MAX_FEATURES_3MR', {'args.combination_number_upper_bound': 'cap', 'MAX_FEATURES_3MR': 'mx'}),
        S('isRel', "' AND_REL ' in column", {'column': ('c', STR)}),
        S('targetOnly', "args.target_ranking_only == 'True'", {'args.target_ranking_only': ('t', STR)}),
        S('withDiagonal', "args.target_ranking_only != 'True'", {'args.target_ranking_only': ('t', STR)}),
        S('diagonalMember', 'individual_column != args.label_column', {'individual_column': ('c', STR), 'args.label_column': ('label', STR)}),
    ],
    ('C06', CR, 'mixed_rank_graph'): [
        S('isConstant', "args.heuristic == 'Constant'", {'args.heuristic': ('h', STR)}),
    ],
    ('C06', CR, '<module>'): [
        S('max3mr', '10 ** 4'),
    ],
    ('C07', CR, 'prior_combinations_sample'): [
        S('emptyInput', 'len(combinations) == 0', {'len(combinations)': 'n'}),
    ],
    ('C07', CR, '<module>'): [
        S('max3mr', '10 ** 4'),
    ],
    # ---- streaming (C08, C16)
    ('C08', CR, 'estimate_importances_minibatches'): [
        S('skipLine', 'line_counter % args.subsampling != 0', {'line_counter': 'lc', 'args.subsampling': 'sub'}),
        S('validLine', 'len(parsed_line) == len(column_descriptions)', {'len(parsed_line)': 'w', 'len(column_descriptions)': 'hw'}),
        S('batchFull', 'len(line_tmp_storage) >= args.minibatch_size', {'len(line_tmp_storage)': 'n', 'args.minibatch_size': 'B'}),
        S('tailUsed', 'remaining_batch_size > 2 ** 10', {'remaining_batch_size': 'n'}),
        S('checkpointInLoop', "args.heuristic != 'Constant'", {'args.heuristic': ('h', STR)}),
    ],
    ('C16', CR, 'estimate_importances_minibatches'): [
        S('validLine', 'len(parsed_line) == len(column_descriptions)', {'len(parsed_line)': 'w', 'len(column_descriptions)': 'hw'}),
    ],
    # ---- interactions and the composition of the constructors (C10, C11)
    ('C10', CR, 'compute_combined_features'): [
        S('featureColumn', 'x != args.label_column', {'x': ('c', STR), 'args.label_column': ('label', STR)}),
        S('joinString', "' AND_REL ' if is_3mr else ' AND '", {'is_3mr': ('rel', 'Bool')}),
        S('order', '2 if is_3mr else args.interaction_order', {'is_3mr': ('rel', 'Bool'), 'args.interaction_order': 'k'}),
        S('enumerate', 'args.interaction_order > 1', {'args.interaction_order': 'k'}),
        S('lengthPrefixed', "f'{len(value)}:{value}'", {'value': ('v', STR)}),
    ],
    ('C11', TR, 'FeatureTransformerGeneric.get_vals'): [],
    ('C11', TR, 'FeatureTransformerGeneric.construct_new_features'): [],
    ('C11', CR, 'compute_batch_ranking'): [
        S('doTransform', "args.transformers != 'none'", {'args.transformers': ('t', STR)}),
        S('doExplode', "args.explode_multivalue_features != 'False'", {'args.explode_multivalue_features': ('e', STR)}),
        S('doSub', "args.subfeature_mapping != 'False'", {'args.subfeature_mapping': ('m', STR)}),
        S('doInteractions', 'args.interaction_order > 1 or args.reference_model_JSON', {'args.interaction_order': 'k', 'args.reference_model_JSON': ('ref', STR)}),
        S('doRelations', "'3mr' in args.heuristic", {'args.heuristic': ('h', STR)}),
        S('doNoise', "args.include_noise_baseline_features == 'True' and args.heuristic != 'Constant'",
          {'args.include_noise_baseline_features': ('n', STR), 'args.heuristic': ('h', STR)}),
        S('doRare', "args.task == 'identify_rare_values'", {'args.task': ('task', STR)}),
    ],
    ('C16', 'outrank/core_utils.py', 'generic_line_parser'): [
        S('isTsv', "args.data_source == 'ob-raw-dump'", {'args.data_source': ('src', STR)}),
        S('isVw', "args.data_source == 'ob-vw'", {'args.data_source': ('src', STR)}),
        S('isCsv', "args.data_source == 'ob-csv' or args.data_source == 'csv-raw'", {'args.data_source': ('src', STR)}),
    ],
    ('C16', 'outrank/core_utils.py', 'parse_namespace'): [
        S('nsParts', "line.strip().split(',')", {'line': ('line', STR)}),
        S('twoFieldLine', "len(namespace_parts) == 2 and '_' not in namespace_parts[0]", {'len(namespace_parts)': 'n', 'namespace_parts[0]': ('id', STR)}),
        S('isFloat', "type_name == 'f32'", {'type_name': ('t', STR)}),
    ],
    # string-valued expressions of the line parsers (whole-function tie: every expression of `parse_ob_line` and every
    # string expression of `parse_ob_line_vw` is regenerated; the statements around them are tied by the skeleton)
    ('C16', CU, 'parse_ob_line'): [
        S('tsvStripped', "line_string.rstrip('\\r\\n')", {'line_string': ('line', STR)}),
        S('tsvFields', 'line_string.split(delimiter)', {'line_string': ('line', STR), 'delimiter': ('d', STR)}),
    ],
    ('C16', 'outrank/core_utils.py', 'parse_ob_line_vw'): [
        S('vwParts', "line_string.strip().split('|')", {'line_string': ('line', STR)}),
        S('vwLabel', "all_line_parts[0].split(' ')[0]", {'all_line_parts': ('parts', STRS)}),
        S('vwRemainder', 'all_line_parts[1:]', {'all_line_parts': ('parts', STRS)}),
        S('vwCore', "remaining_part.strip().split(' ')", {'remaining_part': ('part', STR)}),
        S('vwNamespace', 'core_parts[0]', {'core_parts': ('core', STRS)}),
        S('vwValue', "'-'.join((x for x in core_parts[1:] if x != ''))", {'core_parts': ('core', STRS)}),
        S('keepToken', "x != ''", {'x': ('x', STR)}, type='Bool'),          # lies inside `vwValue`; Bool: `if x` is the same test
        S('vwDropNs', 'x[2:]', {'x': ('x', STR)}),
    ],
    ('C13', CR, 'compute_cardinalities'): [
        S('countedInSketch', 'unique_value', {'unique_value': ('v', STR)}, nth=1, type='Bool'),
    ],
    # header / data-set description readers used by the streaming task
    ('C08', 'outrank/core_utils.py', 'parse_csv_raw'): HEADER_SITES(),
    ('C08', 'outrank/core_utils.py', 'get_dataset_info'): [],
    ('C16', 'outrank/core_utils.py', 'parse_csv_raw'): HEADER_SITES(),
    ('C16', 'outrank/core_utils.py', 'get_dataset_info'): [],
    ('C13', 'outrank/core_utils.py', 'parse_csv_raw'): HEADER_SITES(),
    # ---- transformers keep rule (C12)
    ('C12', TR, 'FeatureTransformerGeneric.__init__'): [
        S('majSupport', '0.8'),
        S('nanSupport', '0.75'),
    ],
    ('C12', TR, 'FeatureTransformerGeneric.construct_new_features'): [
        S('keep', 'len(u) > 1 and cfreq < self.max_maj_support and (nan_prop < self.nan_prop_support)',
          {'len(u)': 'distinct', 'cfreq': ('cfreq', RAT), 'self.max_maj_support': ('maj', RAT), 'nan_prop': ('nanp', RAT),
           'self.nan_prop_support': ('nan', RAT)}),
    ],
    # ---- data-quality statistics (C13)
    ('C13', CR, 'compute_value_counts'): [
        S('retire', 'val > rare_value_count_upper_bound', {'val': 'v', 'rare_value_count_upper_bound': 'bound'}),
    ],
    # ---- sketches (C14, C15)
    ('C14', HLL, 'HyperLogLogWCache.__init__'): [
        S('p', '19'),
        S('m', '1 << self.p', {'self.p': 'p'}),
        S('warmupSize', 'int(self.m / 2)', {'self.m': 'm'}),
        S('width', '64 - self.p', {'self.p': 'p'}),
    ],
    ('C14', HLL, 'HyperLogLogWCache._hasher_update'): [
        S('bucket', 'x & self.m - 1', {'x': 'x', 'self.m': 'm'}),
        S('rest', 'x >> self.p', {'x': 'x', 'self.p': 'p'}),
        S('rho', 'self.width - w.bit_length()', {'self.width': 'width', 'w': 'w'}),
        S('regMax', 'max(self.M[j], rho)', {'self.M[j]': 'r', 'rho': 'rho'}),
    ],
    ('C14', HLL, 'HyperLogLogWCache.add'): [
        S('switch', 'len(self.warmup_set) > self.warmup_size', {'len(self.warmup_set)': 'n', 'self.warmup_size': 'W'}),
    ],
    ('C14', HLL, 'HyperLogLogWCache.__len__'): [
        S('saturated', '2 ** self.p', {'self.p': 'p'}),
    ],
    ('C15', CMS, 'cms_hash'): [
        S('location', '(x_hash + seed) % width', {'x_hash': 'h', 'seed': 'seed', 'width': 'width'}),
    ],
    ('C15', CTR, 'PrimitiveConstrainedCounter.add'): [
        S('ctrGuard', 'len(self.default_counter) < self.max_bound_thr', {'len(self.default_counter)': 'n', 'self.max_bound_thr': 'bound'}),
    ],
    ('C15', CTR, 'PrimitiveConstrainedCounter.batch_add'): [
        S('ctrBatchGuard', 'len(self.default_counter) < self.max_bound_thr', {'len(self.default_counter)': 'n', 'self.max_bound_thr': 'bound'}),
    ],
    # ---- 3MR (C17)
    ('C17', IE, 'rank_features_3MR'): [
        S('more', 'len(ranked_features) < len(all_features)', {'len(ranked_features)': 'k', 'len(all_features)': 'n'}),
        S('better', 'importance > top_importance', {'importance': ('imp', RAT), 'top_importance': ('top', RAT)}),
    ],
    # ---- summary (C18)
    ('C18', TS, 'create_final_dataframe'): [
        S('normalise', "'MI' in heuristic", {'heuristic': ('h', STR)}),
    ],
    # ---- derived synthetic structure (C20)
    ('C20', CC, 'CategoricalClassification.generate_duplicates'): [
        S('dupStart', 'len(X[0])', {'len(X[0])': 'w'}, nth=0),
        S('dupEnd', 'len(X[0]) + len(feature_indices)', {'len(X[0])': 'w', 'len(feature_indices)': 'k'}),
    ],
    ('C20', CC, 'CategoricalClassification.generate_correlated'): [
        S('corrEnd', 'len(X[0]) + len(feature_indices)', {'len(X[0])': 'w', 'len(feature_indices)': 'k'}),
    ],
    ('C20', CC, 'CategoricalClassification.generate_noise'): [
        S('nFlip', 'int(n * p)', {'n': 'n', 'p': ('p', RAT)}, nth=0),
        S('nMissing', 'int(n * p)', {'n': 'n', 'p': ('p', RAT)}, nth=1),
    ],
    # ---- generators (C19)
    ('C19', CC, 'CategoricalClassification.generate_data'): [
        S('gapBeforeSingle', 'ix < feature_ix', {'ix': 'ix', 'feature_ix': 'j'}, nth=0),
        S('gapBeforeListed', 'ix < feature_ix', {'ix': 'ix', 'feature_ix': 'j'}, nth=1),
        S('tailNeeded', 'ix < n_features', {'ix': 'ix', 'n_features': 'nF'}),
    ],
    ('C19', NAIVE, 'generate_random_matrix'): [
        S('needleColumn', '30'),
        S('lowLabel', 'target < 40', {'target': 'v'}),
        S('highLabel', 'target > 39', {'target': 'v'}),
        S('drawLow', '10'),
        S('drawHigh', '100', nth=0),
    ],
    ('C19', CC, 'CategoricalClassification._generate_feature'): [
        S('enforceRep', 'ensure_rep and len(vec) <= size', {'ensure_rep': ('rep', 'Bool'), 'len(vec)': 'd', 'size': 'n'}),
        S('drawn', 'size - len(vec)', {'size': 'n', 'len(vec)': 'd'}),
    ],
}

for (_p, _f, _q), _sites in SITES.items():
    _hit = [a for a in ANCHORS[_p] if a['file'] == _f and a['qual'] == _q]
    if not _hit:
        ANCHORS[_p].append(A(_f, _q, _sites))
    else:
        _hit[0]['sites'] = list(_sites)
