"""Sub-process worker for C17: runs the real `rank_features_3MR` on cases from a JSON-lines file under the PYTHONHASHSEED of
its environment (feature names are strings in a Python `set`, whose iteration order depends on the hash seed) and prints
one JSON result per line."""
import json
import sys
from fractions import Fraction

UNIT = 2329089562800     # lcm(1..30)


def value(m, scale, pyint, unit=UNIT):
    v = Fraction(m * unit) * (Fraction(2) ** scale)
    if pyint:
        assert v.denominator == 1
        return int(v)
    f = float(v)
    assert Fraction(f) == v, 'value not exactly representable'
    return f


def coef(txt, as_int):
    v = Fraction(txt)
    return int(v) if (as_int and v.denominator == 1) else float(v)


def build(c):
    names = c['names'] + c.get('foreign', [])
    sc, pi, u = c['scale'], c.get('pyint', False), c.get('unit', UNIT)
    rel = {c['names'][i]: value(m, sc, pi, u) for i, m in enumerate(c['rel'])}
    red = {(names[a], names[b]): value(m, sc, pi, u) for a, b, m in c['red']}
    rln = {(names[a], names[b]): value(m, sc, pi, u) for a, b, m in c['rln']}
    return rel, red, rln, coef(c['alpha'], c.get('coef_int', False)), coef(c['beta'], c.get('coef_int', False))


def run_case(f, c):
    rel, red, rln, alpha, beta = build(c)
    out = {'id': c.get('id')}
    try:
        if c.get('prev'):
            # earlier call on the same dict OBJECTS holding other values, then in-place update to this case's values
            prel, pred, prln, palpha, pbeta = build(c['prev'])
            f(prel, pred, prln, c['strategy'], palpha, pbeta)
            for old, new in ((prel, rel), (pred, red), (prln, rln)):
                for k, v in new.items():
                    old[k] = v
                for k in [k for k in old if k not in new]:
                    del old[k]
            rel, red, rln = prel, pred, prln
        df = f(rel, red, rln, c['strategy'], alpha, beta)
        feats = list(df['Feature'])
        def plain(x):      # feature names are strings or (pandas' default column labels) integers
            if isinstance(x, str):
                return x
            if isinstance(x, bool) or x is None:
                return None
            try:
                return int(x) if int(x) == x else None
            except (TypeError, ValueError):
                return None
        feats = [plain(x) for x in feats]
        out['features'] = feats
        out['ranks'] = [int(x) for x in df['3MR_Ranking']]
        # the iteration orders of `all_features - set(ranked_features)` along the implementation's own ranking
        af = set(rel.keys())
        if all(x is not None for x in feats):
            out['orders'] = [list(af - set(feats[:k])) for k in range(1, len(feats))]
    except Exception as e:  # noqa: BLE001
        out['exc'] = type(e).__name__ + ':' + str(e)[:120]
    return out


def main(path):
    from outrank.algorithms.importance_estimator import rank_features_3MR
    if path == '-':                      # server mode (shrinking): one case per stdin line, one result per stdout line
        for ln in iter(sys.stdin.readline, ''):
            print(json.dumps(run_case(rank_features_3MR, json.loads(ln))), flush=True)
        return
    with open(path) as fh:
        for ln in fh:
            print(json.dumps(run_case(rank_features_3MR, json.loads(ln))), flush=True)


if __name__ == '__main__':
    main(sys.argv[1])
