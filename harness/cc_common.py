"""Shared by corr_C19 / corr_C20: recording of the numpy global-generator calls made by the synthetic data generators.

`Recorder` wraps attributes of the `np.random` MODULE from outside (the code under test calls `np.random.choice(...)`,
which looks the attribute up at call time) and restores them afterwards.  The real functions are still called, so the
random stream is untouched; what they returned is appended to `events` in the wire form of `C19.Ev`:

  [seed, s] | [cnr, lo, pop, k, res] | [ri, n, res] | [cp, dom, k, res] | [sh, n, perm]
  [rim, lo, hi, rows, cols, matrix]  (randint with a 2-D size: the naive generator)
  [normal, n, values]                (C20: generate_correlated)

An event whose arguments cannot be expressed (unexpected call form) is recorded as [other, name] – the Lean tape then
reports a mismatch."""
from __future__ import annotations

import numpy as np

from vp_common import Atom


def _ilist(a):
    return [int(x) for x in np.asarray(a).ravel().tolist()]


def perm_of(before, after):
    """indices p with after[i] == before[p[i]], p a permutation; [] when `after` is not a rearrangement of `before`"""
    if len(before) != len(after):
        return []
    pos = {}
    for j in range(len(before) - 1, -1, -1):
        pos.setdefault(before[j], []).append(j)
    out = []
    for v in after:
        st = pos.get(v)
        if not st:
            return []
        out.append(st.pop())
    return out


class Recorder:
    NAMES = ('seed', 'choice', 'randint', 'shuffle', 'normal')

    def __init__(self):
        self.events = []
        self._orig = {}

    def __enter__(self):
        for n in self.NAMES:
            self._orig[n] = getattr(np.random, n)
            setattr(np.random, n, getattr(self, '_' + n))
        return self

    def __exit__(self, *exc):
        for n, f in self._orig.items():
            setattr(np.random, n, f)
        return False

    # -- wrappers -------------------------------------------------------------------------------
    def _seed(self, s=None):
        r = self._orig['seed'](s)
        self.events.append([Atom('seed'), int(s)] if isinstance(s, (int, np.integer)) and s >= 0 else [Atom('other'), Atom('seed')])
        return r

    def _choice(self, a, size=None, replace=True, p=None):
        r = self._orig['choice'](a, size=size, replace=replace, p=p)
        try:
            k = 1 if size is None else int(size)
            res = _ilist(r)
            if not replace:
                if isinstance(a, range) and a.step == 1:
                    lo, pop = a.start, len(a)
                elif isinstance(a, (int, np.integer)):
                    lo, pop = 0, int(a)
                else:
                    raise TypeError
                self.events.append([Atom('cnr'), int(lo), int(pop), k, res])
            else:
                arr = np.arange(a) if isinstance(a, (int, np.integer)) else np.asarray(a)
                if arr.dtype.kind not in 'iu' or np.asarray(r).dtype.kind not in 'iu':
                    raise TypeError
                self.events.append([Atom('cp'), _ilist(arr), k, res])
        except (TypeError, ValueError):
            self.events.append([Atom('other'), Atom('choice')])
        return r

    def _randint(self, low, high=None, size=None, dtype=int):
        r = self._orig['randint'](low, high, size=size, dtype=dtype)
        if high is None and size is None:
            self.events.append([Atom('ri'), int(low), int(r)])
        elif high is not None and isinstance(size, tuple) and len(size) == 2:
            self.events.append([Atom('rim'), int(low), int(high), int(size[0]), int(size[1]), [[int(v) for v in row] for row in r.tolist()]])
        else:
            self.events.append([Atom('other'), Atom('randint')])
        return r

    def _shuffle(self, x):
        before = np.array(x).tolist() if np.ndim(x) == 1 else None
        r = self._orig['shuffle'](x)
        if before is None:
            self.events.append([Atom('other'), Atom('shuffle')])
        else:
            self.events.append([Atom('sh'), len(before), perm_of(before, np.array(x).tolist())])
        return r

    def _normal(self, loc=0.0, scale=1.0, size=None):
        r = self._orig['normal'](loc, scale, size)
        self.events.append([Atom('normal'), 0 if size is None else int(np.prod(size)), [float(v) for v in np.ravel(r)]])
        return r


def attr_wire(a):
    """case-level attribute ('card', c) | ('vals', [..]) | ('freq', [..], [..]) -> wire form of C19.Attr"""
    if a[0] == 'card':
        return [Atom('card'), int(a[1])]
    return [Atom(a[0]), [int(v) for v in a[1]]]


def attr_py(a):
    """case-level attribute -> the `feature_attributes` argument of the real code"""
    if a[0] == 'card':
        return int(a[1])
    if a[0] == 'vals':
        return [int(v) for v in a[1]]
    return [[int(v) for v in a[1]], [float(x) for x in a[2]]]


def struct_wire(structure):
    if structure is None:
        return Atom('none')
    out = []
    for e in structure:
        if e[0] == 'single':
            out.append([Atom('single'), int(e[1]), attr_wire(e[2])])
        else:
            out.append([Atom('many'), [int(i) for i in e[1]], attr_wire(e[2])])
    return out


def struct_py(structure, as_array=False):
    if structure is None:
        return None
    out = []
    for e in structure:
        if e[0] == 'single':
            out.append((int(e[1]), attr_py(e[2])))
        else:
            ixs = [int(i) for i in e[1]]
            out.append((np.array(ixs) if as_array else ixs, attr_py(e[2])))
    return out


def exc_kind(e):
    return type(e).__name__
